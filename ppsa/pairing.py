"""PAIR analysis: every path (normal and exceptional) from an acquire to the exit of the owning
entry point passes a release; acquire count = release count on every path.

A syntax-directed path enumeration with a small state (number of acquisitions held) over the
statement tree of each function, with exceptional control flow (try / except / finally / raise,
every call a potential raise point) and interprocedural summaries over resolved callees.
"""
from __future__ import annotations

import ast
from typing import Dict, FrozenSet, List, Optional, Set, Tuple

from .astutil import call_name, dotted, head
from .loader import ClassInfo, FunctionInfo, Repo

# outcome kinds
FALL, RET, RAISE, BRK, CONT = "fall", "return", "raise", "break", "continue"

NO_RAISE_CALLS = {"len", "isinstance", "hasattr", "getattr", "print", "str", "int", "float", "bool", "list", "dict",
                  "tuple", "set", "range", "enumerate", "zip", "id", "type", "callable", "repr", "format", "super",
                  "logger.debug", "logger.info", "logger.warning", "logger.error", "logging.getLogger",
                  "warnings.warn", "time.time", "time.perf_counter", "deepcopy", "copy.deepcopy", "copy.copy"}


class Outcome:
    __slots__ = ("kind", "held", "site", "acq", "dec")

    def __init__(self, kind, held, site=None, acq=None, dec=frozenset()):
        self.kind = kind
        self.held = held
        self.site = site  # (FunctionInfo, node) where an exception may be raised / return happens
        self.acq = acq    # (FunctionInfo, node) of the acquire call still outstanding
        self.dec = dec    # branch decisions taken on this path: frozenset of (condition text, bool)

    def with_dec(self, dec):
        return Outcome(self.kind, self.held, self.site, self.acq, dec)

    def key(self):
        return (self.kind, self.held, self.site[1].lineno if self.site else 0, self.acq[1].lineno if self.acq else 0)


class Summary:
    def __init__(self, outcomes: List[Outcome]):
        self.outcomes = outcomes

    def normal_deltas(self) -> Set[int]:
        return {o.held for o in self.outcomes if o.kind in (FALL, RET)}

    def raise_outcomes(self) -> List[Outcome]:
        return [o for o in self.outcomes if o.kind == RAISE]


def _cond_text(test) -> Optional[str]:
    """Normalised text of a branch condition that is worth correlating (no calls with side effects are
    excluded: a condition is correlated only while none of the names it mentions is reassigned)."""
    try:
        return " ".join(ast.unparse(test).split())
    except Exception:
        return None


def _mentions(cond: str, names: Set[str]) -> bool:
    import re as _re
    toks = set(_re.findall(r"[A-Za-z_][A-Za-z_0-9.]*", cond))
    for n in names:
        for t in toks:
            if t == n or t.startswith(n + ".") or n.startswith(t + "."):
                return True
    return False


class PairAnalysis:
    def __init__(self, repo: Repo, acquire: Set[str], release: Set[str], max_depth: int = 8, max_states: int = 400):
        self.repo = repo
        self.acquire = set(acquire)
        self.release = set(release)
        self.max_depth = max_depth
        self.max_states = max_states
        self._relevant: Dict[str, bool] = {}
        self._summ: Dict[str, Summary] = {}
        self._stack: List[str] = []
        self.unresolved = 0
        self.resolved = 0
        self.neutral: Set[str] = set()      # functions whose release-only imbalance is exempt (seen as balanced by callers)
        self.neutral_seen: Dict[str, List[Outcome]] = {}

    # ---- which functions can change the held count (transitively)
    def relevant(self, fi: FunctionInfo, _seen=None) -> bool:
        fq = fi.fq
        if fq in self.acquire or fq in self.release:
            return True
        if fq in self._relevant:
            return self._relevant[fq]
        _seen = _seen or set()
        if fq in _seen:
            return False
        _seen.add(fq)
        self._relevant[fq] = False
        res = False
        for n in ast.walk(fi.node):
            if isinstance(n, ast.Call):
                c = self.resolve_call(fi, n)
                if c is not None and (c.fq in self.acquire or c.fq in self.release or self.relevant(c, _seen)):
                    res = True
                    break
        self._relevant[fq] = res
        return res

    def _local_types(self, fi: FunctionInfo) -> Dict[str, ClassInfo]:
        """var -> class for 'var = ClassName(...)' assignments in the function (and 'self.x = ClassName(...)'
        in the __init__ of the function's class, keyed 'self.x')."""
        key = fi.fq
        cache = self.__dict__.setdefault("_ltypes", {})
        if key in cache:
            return cache[key]
        out: Dict[str, ClassInfo] = {}
        cache[key] = out

        def scan(f: FunctionInfo, selfonly: bool):
            for n in ast.walk(f.node):
                if isinstance(n, ast.Assign) and isinstance(n.value, ast.Call):
                    cn = dotted(n.value.func)
                    if cn is None:
                        continue
                    r = self.repo.resolve(f.module.name, cn)
                    if isinstance(r, ClassInfo):
                        for t in n.targets:
                            d = dotted(t)
                            if d and (not selfonly or d.startswith("self.")):
                                out.setdefault(d, r)
        scan(fi, False)
        if fi.cls:
            ci = fi.module.classes.get(fi.cls)
            if ci is not None:
                init = self.repo.resolve_method(ci, "__init__")
                if isinstance(init, FunctionInfo) and init is not fi:
                    scan(init, True)
        return out

    def resolve_call(self, fi: FunctionInfo, call: ast.Call) -> Optional[FunctionInfo]:
        nm = dotted(call.func)
        if nm is None:
            return None
        if "." in nm:
            base, meth = nm.rsplit(".", 1)
            lt = self._local_types(fi)
            if base in lt:
                m = self.repo.resolve_method(lt[base], meth)
                if isinstance(m, FunctionInfo):
                    return m
        if nm.startswith("self.") and fi.cls:
            ci = fi.module.classes.get(fi.cls)
            if ci is not None:
                m = self.repo.resolve_method(ci, nm[5:])
                if isinstance(m, FunctionInfo):
                    return m
            return None
        r = self.repo.resolve(fi.module.name, nm)
        if isinstance(r, FunctionInfo):
            return r
        if isinstance(r, ClassInfo):
            init = self.repo.resolve_method(r, "__init__")
            return init if isinstance(init, FunctionInfo) else None
        # local imports inside the function body are in module.imports too (ast.walk based)
        return None

    # ---- summaries
    def summary(self, fi: FunctionInfo) -> Summary:
        fq = fi.fq
        if fq in self._summ:
            return self._summ[fq]
        if fq in self._stack or len(self._stack) >= self.max_depth:
            return Summary([Outcome(FALL, 0), Outcome(RAISE, 0, (fi, fi.node))])
        self._stack.append(fq)
        try:
            outs = self.block(fi, fi.node.body, [Outcome(FALL, 0)])
        finally:
            self._stack.pop()
        res = []
        for o in outs:
            kind = FALL if o.kind in (BRK, CONT) else o.kind
            res.append(Outcome(kind, o.held, o.site, o.acq))
        res = self._dedup(res)
        if fq in self.neutral:
            self.neutral_seen[fq] = res
            if all(o.held <= 0 for o in res):
                res = self._dedup([Outcome(o.kind, 0, o.site, None) for o in res])
        s = Summary(res)
        self._summ[fq] = s
        return s

    def _dedup(self, outs: List[Outcome]) -> List[Outcome]:
        seen = {}
        for o in outs:
            k = (o.kind, o.held, o.acq[1].lineno if o.acq else 0, o.dec)
            # keep the first site per (kind, held, acquire)
            seen.setdefault(k, o)
        out = list(seen.values())
        return out[: self.max_states]

    # ---- statements: each takes the list of incoming FALL states, returns all outcomes
    def block(self, fi, body, ins: List[Outcome]) -> List[Outcome]:
        done: List[Outcome] = []
        cur = ins
        for st in body:
            if not cur:
                break
            outs = self.stmt(fi, st, cur)
            cur = [o for o in outs if o.kind == FALL]
            done += [o for o in outs if o.kind != FALL]
            cur = self._dedup(cur)
        return self._dedup(done + cur)

    def stmt(self, fi, st, ins: List[Outcome]) -> List[Outcome]:
        if isinstance(st, (ast.FunctionDef, ast.AsyncFunctionDef, ast.ClassDef, ast.Import, ast.ImportFrom, ast.Pass,
                           ast.Global, ast.Nonlocal)):
            return ins
        if isinstance(st, ast.Return):
            outs = self.exprs(fi, [st.value] if st.value is not None else [], ins)
            return [Outcome(RET, o.held, (fi, st), o.acq, o.dec) if o.kind == FALL else o for o in outs]
        if isinstance(st, ast.Raise):
            outs = self.exprs(fi, [e for e in (st.exc, st.cause) if e is not None], ins)
            return [Outcome(RAISE, o.held, (fi, st), o.acq, o.dec) if o.kind == FALL else o for o in outs]
        if isinstance(st, ast.Break):
            return [Outcome(BRK, o.held, o.site, o.acq, o.dec) for o in ins]
        if isinstance(st, ast.Continue):
            return [Outcome(CONT, o.held, o.site, o.acq, o.dec) for o in ins]
        if isinstance(st, ast.If):
            t = self.exprs(fi, [st.test], ins)
            falls = [o for o in t if o.kind == FALL]
            rest = [o for o in t if o.kind != FALL]
            cond = _cond_text(st.test)
            tt, ff = [], []
            for o in falls:
                d = dict(o.dec)
                if cond is not None and cond in d:
                    (tt if d[cond] else ff).append(o)
                elif cond is not None:
                    tt.append(o.with_dec(o.dec | {(cond, True)}))
                    ff.append(o.with_dec(o.dec | {(cond, False)}))
                else:
                    tt.append(o)
                    ff.append(o)
            return rest + self.block(fi, st.body, tt) + (self.block(fi, st.orelse, ff) if st.orelse else ff)
        if isinstance(st, (ast.For, ast.AsyncFor, ast.While)):
            hdr = [st.iter] if not isinstance(st, ast.While) else [st.test]
            t = self.exprs(fi, hdr, ins)
            falls = [o for o in t if o.kind == FALL]
            rest = [o for o in t if o.kind != FALL]
            body = self.block(fi, st.body, falls)
            # zero or one iteration (a second iteration repeats the effect; acquire/release inside a
            # loop body must be balanced per iteration, checked by the one-iteration path)
            after = list(falls)
            for o in body:
                if o.kind in (FALL, CONT, BRK):
                    after.append(Outcome(FALL, o.held, o.site, o.acq, o.dec))
                else:
                    rest.append(o)
            after = self._dedup(after)
            if st.orelse:
                return rest + self.block(fi, st.orelse, after)
            return rest + after
        if isinstance(st, (ast.With, ast.AsyncWith)):
            t = self.exprs(fi, [i.context_expr for i in st.items], ins)
            falls = [o for o in t if o.kind == FALL]
            rest = [o for o in t if o.kind != FALL]
            return rest + self.block(fi, st.body, falls)
        if isinstance(st, ast.Try) or (hasattr(ast, "TryStar") and isinstance(st, getattr(ast, "TryStar"))):
            return self.try_stmt(fi, st, ins)
        if isinstance(st, ast.Match):
            t = self.exprs(fi, [st.subject], ins)
            falls = [o for o in t if o.kind == FALL]
            outs = [o for o in t if o.kind != FALL]
            for c in st.cases:
                outs += self.block(fi, c.body, falls)
            return outs + falls
        # simple statements: evaluate contained expressions
        exprs = [n for n in ast.iter_child_nodes(st) if isinstance(n, ast.expr)]
        outs = self.exprs(fi, exprs, ins)
        if isinstance(st, (ast.Assign, ast.AugAssign, ast.AnnAssign, ast.Delete)):
            tg = st.targets if isinstance(st, (ast.Assign, ast.Delete)) else [st.target]
            names = set()
            for t in tg:
                for n in ast.walk(t):
                    d = dotted(n) if isinstance(n, (ast.Name, ast.Attribute)) else None
                    if d:
                        names.add(d)
            if names:
                outs = [o.with_dec(frozenset((c, b) for c, b in o.dec if not _mentions(c, names))) if o.dec else o for o in outs]
        return outs

    def try_stmt(self, fi, st, ins):
        body = self.block(fi, st.body, ins)
        catch_all = any(h.type is None or (dotted(h.type) in ("Exception", "BaseException")) for h in st.handlers)
        outs: List[Outcome] = []
        raised = [o for o in body if o.kind == RAISE]
        normal = [o for o in body if o.kind != RAISE]
        handled_in: List[Outcome] = []
        if st.handlers:
            handled_in = [Outcome(FALL, o.held, o.site, o.acq, o.dec) for o in raised]
            if not catch_all:
                outs += raised  # may also propagate
        else:
            outs += raised
        for h in st.handlers:
            outs += self.block(fi, h.body, self._dedup(handled_in))
        falls = [o for o in normal if o.kind == FALL]
        outs += [o for o in normal if o.kind != FALL]
        if st.orelse:
            outs += self.block(fi, st.orelse, falls)
        else:
            outs += falls
        if st.finalbody:
            res = []
            for o in self._dedup(outs):
                fin = self.block(fi, st.finalbody, [Outcome(FALL, o.held, o.site, o.acq, o.dec)])
                for f in fin:
                    if f.kind == FALL:
                        res.append(Outcome(o.kind, f.held, o.site, f.acq, f.dec))
                    else:
                        res.append(f)
            return res
        return outs

    def exprs(self, fi, exprs, ins: List[Outcome]) -> List[Outcome]:
        calls = []
        for e in exprs:
            if e is None:
                continue
            for n in ast.walk(e):
                if isinstance(n, ast.Call):
                    calls.append(n)
                elif isinstance(n, ast.Lambda):
                    pass
        if not calls:
            return ins
        # evaluation order: inner calls first (ast.walk is breadth-first: reverse gives inner-first approx.)
        calls = sorted(calls, key=lambda c: (c.end_lineno, c.end_col_offset))
        cur = ins
        done: List[Outcome] = []
        for c in calls:
            nxt = []
            for o in cur:
                for r in self.call(fi, c, o):
                    (nxt if r.kind == FALL else done).append(r)
            cur = self._dedup(nxt)
        return done + cur

    def call(self, fi, call: ast.Call, o: Outcome) -> List[Outcome]:
        callee = self.resolve_call(fi, call)
        nm = call_name(call) or ""
        if callee is None:
            self.unresolved += 1
            if nm in NO_RAISE_CALLS or nm.startswith("logger."):
                return [o]
            return [o, Outcome(RAISE, o.held, (fi, call), o.acq, o.dec)]
        self.resolved += 1
        fq = callee.fq
        if fq in self.acquire:
            return [Outcome(FALL, o.held + 1, o.site, (fi, call), o.dec),
                    Outcome(RAISE, o.held, (fi, call), o.acq, o.dec)]
        if fq in self.release:
            # a failing release cannot be compensated by the caller: it is assumed to release before it can raise
            return [Outcome(FALL, max(o.held - 1, -3), o.site, o.acq if o.held - 1 > 0 else None, o.dec),
                    Outcome(RAISE, max(o.held - 1, -3), (fi, call), o.acq if o.held - 1 > 0 else None, o.dec)]
        if not self.relevant(callee):
            return [o, Outcome(RAISE, o.held, (fi, call), o.acq, o.dec)]
        s = self.summary(callee)
        res = []
        for so in s.outcomes:
            h = o.held + so.held
            acq = so.acq if so.acq is not None else o.acq
            if h <= 0:
                acq = None
            if so.kind in (FALL, RET):
                res.append(Outcome(FALL, h, o.site, acq, o.dec))
            elif so.kind == RAISE:
                res.append(Outcome(RAISE, h, so.site or (fi, call), acq, o.dec))
        if not any(r.kind == RAISE for r in res):
            res.append(Outcome(RAISE, o.held, (fi, call), o.acq, o.dec))
        return res
