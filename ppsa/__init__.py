"""ppsa - repository-specific static analyser for e2nIEE/pandapower.

Never imports or executes pandapower, numpy or pandas: everything is decided from the
syntax tree of /repo's current working tree (optionally with an in-memory overlay).
"""
