"""Monomial-shape abstract domain (DESIGN.md 2.3).

A Shape is a frozenset of Mono (a sum of monomials) or TOP (None).  A Mono records, for one
product term: exponents over tracked symbols (B = system base power, par = parallel, vm = bus
voltage magnitude, unit dimensions V A km s), the decimal exponent of the stored number relative
to the SI quantity, the sign of the syntactic coefficient (source atoms count as positive symbols), and the set of
source atoms multiplied into it.
"""
from __future__ import annotations

import math
from fractions import Fraction
from typing import Dict, FrozenSet, Iterable, Optional, Tuple

TOP = None
MAXMONO = 96


class Incons:
    """Absorbing 'dimensionally inconsistent' value: a sum of monomials of different unit /
    scale / degree classes was used where a single class is required (under a root, as a
    divisor).  Unlike TOP (unknown) it is evidence of a defect and is reported as such."""
    __slots__ = ("why",)

    def __init__(self, why):
        self.why = why

    def __repr__(self):
        return f"INCONSISTENT({self.why})"

    def __bool__(self):
        return True

    def __iter__(self):
        return iter(())


def is_bad(a):
    return isinstance(a, Incons)


def _prop(*xs):
    """Incons if any operand is inconsistent, else 'TOP' marker string if any is TOP, else None."""
    for x in xs:
        if isinstance(x, Incons):
            return x
    for x in xs:
        if x is TOP:
            return "TOP"
    return None


def _classes(a):
    return sorted({f"[{' '.join(f'{k}^{v}' for k, v in m.drop(('j',)).exps) or '1'}|1e{m.dec}]" for m in a})


class Mono:
    __slots__ = ("exps", "dec", "sign", "facs", "_h")

    def __init__(self, exps: Dict[str, Fraction] = None, dec=Fraction(0), sign=1, facs=frozenset()):
        if exps and "j" in exps:
            # imaginary unit marker: j^2 = -1
            exps = dict(exps)
            jn = exps["j"]
            if jn == int(jn):
                jn = int(jn) % 4
                if jn >= 2:
                    sign = -sign
                    jn -= 2
                exps["j"] = jn
        e = tuple(sorted((k, Fraction(v)) for k, v in (exps or {}).items() if v != 0))
        self.exps = e
        self.dec = dec  # Fraction or None (unknown)
        self.sign = sign  # 1, -1, 0 (unknown)
        self.facs = frozenset(facs)
        self._h = hash((self.exps, self.dec, self.sign, self.facs))

    def __hash__(self):
        return self._h

    def __eq__(self, o):
        return (isinstance(o, Mono) and self.exps == o.exps and self.dec == o.dec
                and self.sign == o.sign and self.facs == o.facs)

    def exp(self, sym) -> Fraction:
        for k, v in self.exps:
            if k == sym:
                return v
        return Fraction(0)

    def expd(self) -> Dict[str, Fraction]:
        return dict(self.exps)

    def mul(self, o: "Mono") -> "Mono":
        d = self.expd()
        for k, v in o.exps:
            d[k] = d.get(k, 0) + v
        dec = None if (self.dec is None or o.dec is None) else self.dec + o.dec
        return Mono(d, dec, self.sign * o.sign, self.facs | o.facs)

    def inv(self) -> "Mono":
        return Mono({k: -v for k, v in self.exps}, None if self.dec is None else -self.dec, self.sign, self.facs)

    def pow(self, k: Fraction) -> "Mono":
        if k == int(k) and int(k) % 2 == 0:
            s = 1
        elif k == int(k):
            s = self.sign
        else:
            s = 1 if self.sign == 1 else 0
        return Mono({a: v * k for a, v in self.exps}, None if self.dec is None else self.dec * k, s, self.facs)

    def neg(self) -> "Mono":
        return Mono(self.expd(), self.dec, -self.sign, self.facs)

    def with_sign(self, s) -> "Mono":
        return Mono(self.expd(), self.dec, s, self.facs)

    def drop(self, syms) -> "Mono":
        return Mono({k: v for k, v in self.exps if k not in syms}, self.dec, self.sign, self.facs)

    def __repr__(self):
        e = " ".join(f"{k}^{v}" for k, v in self.exps) or "1"
        s = {1: "+", -1: "-", 0: "?"}[self.sign]
        return f"{s}[{e}|dec={self.dec}|{','.join(sorted(self.facs))}]"

    def brief(self):
        e = " ".join(f"{k}^{v}" for k, v in self.exps) or "1"
        s = {1: "+", -1: "-", 0: "?"}[self.sign]
        return f"{s}{e} e{self.dec}"


PURE = Mono()
ZERO: FrozenSet[Mono] = frozenset()


def S(*monos) -> FrozenSet[Mono]:
    return frozenset(monos)


def _cap(s):
    if s is TOP or isinstance(s, Incons):
        return s
    if len(s) > MAXMONO:
        s = collapse(s)
        if len(s) > MAXMONO:
            return TOP
    return s


def add(a, b):
    p = _prop(a, b)
    if p is not None:
        return TOP if p == "TOP" else p
    return _cap(a | b)


def neg(a):
    if a is TOP or isinstance(a, Incons):
        return a
    return frozenset(m.neg() for m in a)


def sub(a, b):
    return add(a, neg(b))


def collapse(a):
    """One monomial per (exponents, decimal) class: factors are united, the sign is kept when all
    members agree.  Loses which factors occur together, keeps dimension / degree / scale."""
    if a is TOP or isinstance(a, Incons):
        return a
    groups = {}
    for m in a:
        groups.setdefault((m.exps, m.dec), []).append(m)
    out = []
    for (exps, dec), ms in groups.items():
        signs = {m.sign for m in ms}
        facs = frozenset().union(*[m.facs for m in ms])
        out.append(Mono(dict(exps), dec, signs.pop() if len(signs) == 1 else 0, facs))
    return frozenset(out)


def mul(a, b):
    p = _prop(a, b)
    if p is not None:
        return TOP if p == "TOP" else p
    if len(a) * len(b) > MAXMONO:
        a, b = collapse(a), collapse(b)
        if len(a) * len(b) > MAXMONO * 4:
            return TOP
    return _cap(frozenset(x.mul(y) for x in a for y in b))


def div(a, b):
    """a / b; b must be a single monomial class up to facs/sign (all monomials of b must share
    exponents and decimal), otherwise TOP."""
    p = _prop(a, b)
    if p is not None:
        return TOP if p == "TOP" else p
    if not b:
        return TOP
    keys = {(m.exps, m.dec) for m in b}
    if len(keys) != 1:
        # complex denominator r + j*x of one dimension class: the quotient keeps the class, the
        # split into real and imaginary part is lost (sign unknown, marker dropped)
        keys2 = {(m.drop(("j",)).exps, m.dec) for m in b}
        if len(keys2) != 1:
            if all(m.facs for m in b):
                return Incons(f"divisor is a sum of unlike terms {_classes(b)}")
            return TOP
        facs = frozenset().union(*[m.facs for m in b])
        any_b = next(iter(b)).drop(("j",))
        bm = Mono(any_b.expd(), any_b.dec, 0, facs).inv()
        return _cap(frozenset(x.drop(("j",)).mul(bm).with_sign(0) for x in a))
    signs = {m.sign for m in b}
    sg = signs.pop() if len(signs) == 1 else 0
    facs = frozenset().union(*[m.facs for m in b])
    any_b = next(iter(b))
    bm = Mono(any_b.expd(), any_b.dec, sg, facs).inv()
    return _cap(frozenset(x.mul(bm) for x in a))


def power(a, k):
    if a is TOP or isinstance(a, Incons):
        return a
    try:
        k = Fraction(k).limit_denominator(64)
    except Exception:
        return TOP
    if len(a) == 1:
        return frozenset(m.pow(k) for m in a)
    if k == 2 and len(a) <= 6:
        return mul(a, a)
    if k == 2:
        c = collapse(a)
        return mul(c, c)
    if k == 1:
        return a
    keys = {(m.drop(("j",)).exps, m.dec) for m in a}
    if len(keys) == 1:
        any_a = next(iter(a)).drop(("j",))
        facs = frozenset().union(*[m.facs for m in a])
        return frozenset([Mono(any_a.expd(), any_a.dec, 0, facs).pow(k)])
    if k != int(k) and all(m.facs for m in a):
        return Incons(f"root of a sum of unlike terms {_classes(a)}")
    return TOP


def absval(a):
    if a is TOP or isinstance(a, Incons):
        return a
    return frozenset(m.drop(("j",)).with_sign(1) for m in a)


def real_part(a):
    """Monomials without the imaginary marker (values of unknown complex structure have none
    and are returned unchanged)."""
    if a is TOP or isinstance(a, Incons):
        return a
    if not any(m.exp("j") for m in a):
        return a
    return frozenset(m for m in a if m.exp("j") == 0)


def imag_part(a):
    if a is TOP or isinstance(a, Incons):
        return a
    if not any(m.exp("j") for m in a):
        return a
    return frozenset(m.drop(("j",)) for m in a if m.exp("j") == 1)


def unknown_sign(a):
    if a is TOP or isinstance(a, Incons):
        return a
    return frozenset(m.with_sign(0) for m in a)


def literal(v) -> FrozenSet[Mono]:
    """Numeric literal: exact powers of ten are unit conversions (dec -k), everything else is a
    pure number.  Sign is tracked."""
    if isinstance(v, bool) or v is None:
        return S(PURE)
    if isinstance(v, complex):
        if v.real == 0 and v.imag != 0:
            return S(Mono({"j": 1}, sign=1 if v.imag > 0 else -1))
        return S(PURE, Mono({"j": 1}))
    if not isinstance(v, (int, float)):
        return TOP
    if v == 0:
        return ZERO
    sign = -1 if v < 0 else 1
    a = abs(v)
    try:
        lg = math.log10(a)
    except ValueError:
        return S(Mono(sign=sign))
    k = round(lg)
    if k != 0 and abs(a - 10.0 ** k) <= 1e-12 * max(a, 10.0 ** k):
        return S(Mono(dec=Fraction(-k), sign=sign))
    return S(Mono(sign=sign))


# ----------------------------------------------------------------------------------------
# unit table from the repository's column naming convention
V, A, KM, SEC = "V", "A", "km", "s"

_SUFFIX = [
    ("_ohm_per_km", {V: 1, A: -1, KM: -1}, 0),
    ("_nf_per_km", {A: 1, SEC: 1, V: -1, KM: -1}, -9),
    ("_us_per_km", {A: 1, V: -1, KM: -1}, -6),
    ("_ohm", {V: 1, A: -1}, 0),
    ("_km", {KM: 1}, 0),
    ("_kv", {V: 1}, 3),
    ("_ka", {A: 1}, 3),
    ("_mva", {V: 1, A: 1}, 6),
    ("_mvar", {V: 1, A: 1}, 6),
    ("_mw", {V: 1, A: 1}, 6),
    ("_kw", {V: 1, A: 1}, 3),
    ("_percent", {}, -2),
    ("_pu", {}, 0),
    ("_degree", {}, 0),
    ("_hz", {SEC: -1}, 0),
]


def column_shape(col: str, atom: str) -> FrozenSet[Mono]:
    if col == "parallel":
        return S(Mono({"par": 1}, facs=[atom]))
    for extra in ("_table", "_char"):
        # merge suffixes used by the code itself (suffixes=("", "_table"))
        if col.endswith(extra):
            col = col[: -len(extra)]
    for suf, dims, dec in _SUFFIX:
        if col.endswith(suf):
            return S(Mono(dims, Fraction(dec), 1, [atom]))
    return S(Mono(sign=1, facs=[atom]))


MW = {V: 1, A: 1}

# ppc column shapes (per-unit columns carry the base-power degree)
PPC_COLS = {
    ("bus", "PD"): (MW, 6, {}), ("bus", "QD"): (MW, 6, {}), ("bus", "GS"): (MW, 6, {}), ("bus", "BS"): (MW, 6, {}),
    ("bus", "BASE_KV"): ({V: 1}, 3, {}), ("bus_dc", "DC_BASE_KV"): ({V: 1}, 3, {}), ("bus_dc", "DC_VM"): ({}, 0, {"vm": 1}),
    ("bus_dc", "DC_PD"): (MW, 6, {}), ("bus", "VM"): ({}, 0, {"vm": 1}), ("bus", "VA"): ({}, 0, {}),
    ("bus", "VMAX"): ({}, 0, {}), ("bus", "VMIN"): ({}, 0, {}),
    ("gen", "PG"): (MW, 6, {}), ("gen", "QG"): (MW, 6, {}), ("gen", "QMAX"): (MW, 6, {}), ("gen", "QMIN"): (MW, 6, {}),
    ("gen", "PMAX"): (MW, 6, {}), ("gen", "PMIN"): (MW, 6, {}), ("gen", "VG"): ({}, 0, {}), ("gen", "MBASE"): (MW, 6, {}),
    ("branch", "BR_R"): ({}, 0, {"B": 1}), ("branch", "BR_X"): ({}, 0, {"B": 1}),
    ("branch", "BR_B"): ({}, 0, {"B": -1}), ("branch", "BR_G"): ({}, 0, {"B": -1}),
    ("branch", "BR_B_ASYM"): ({}, 0, {"B": -1}), ("branch", "BR_G_ASYM"): ({}, 0, {"B": -1}),
    ("branch", "RATE_A"): (MW, 6, {}), ("branch", "RATE_B"): (MW, 6, {}), ("branch", "RATE_C"): (MW, 6, {}),
    ("branch", "TAP"): ({}, 0, {}), ("branch", "SHIFT"): ({}, 0, {}),
    ("branch", "PF"): (MW, 6, {}), ("branch", "QF"): (MW, 6, {}), ("branch", "PT"): (MW, 6, {}), ("branch", "QT"): (MW, 6, {}),
    # short-circuit columns (pandapower/pypower/idx_bus_sc.py): equivalent impedance in per unit, currents in kA, power in MVA
    ("bus", "R_EQUIV"): ({}, 0, {"B": 1}), ("bus", "X_EQUIV"): ({}, 0, {"B": 1}),
    ("bus", "R_EQUIV_OHM"): ({V: 1, A: -1}, 0, {}), ("bus", "X_EQUIV_OHM"): ({V: 1, A: -1}, 0, {}),
    ("bus", "C_MIN"): ({}, 0, {}), ("bus", "C_MAX"): ({}, 0, {}), ("bus", "KAPPA"): ({}, 0, {}), ("bus", "M"): ({}, 0, {}),
    ("bus", "IKSS1"): ({A: 1}, 3, {}), ("bus", "IKSS2"): ({A: 1}, 3, {}), ("bus", "IP"): ({A: 1}, 3, {}), ("bus", "ITH"): ({A: 1}, 3, {}),
    ("bus", "SKSS"): (MW, 6, {}), ("bus", "V_G"): ({V: 1}, 3, {}), ("bus", "K_G"): ({}, 0, {}), ("bus", "K_SG"): ({}, 0, {}),
    ("bus", "GS_P"): (MW, 6, {}), ("bus", "BS_P"): (MW, 6, {}), ("bus", "GS_GEN"): (MW, 6, {}), ("bus", "BS_GEN"): (MW, 6, {}),
}


def ppc_shape(matrix: str, col: str, atom: str):
    ent = PPC_COLS.get((matrix, col))
    if ent is None:
        return S(Mono(sign=1, facs=[atom]))
    dims, dec, syms = ent
    d = dict(dims)
    d.update(syms)
    return S(Mono(d, Fraction(dec), 1, [atom]))


def base_power(atom: str):
    return S(Mono({V: 1, A: 1, "B": 1}, Fraction(6), 1, [atom]))


def describe(s) -> str:
    if s is TOP:
        return "TOP"
    if isinstance(s, Incons):
        return repr(s)
    if not s:
        return "0"
    return " + ".join(sorted(m.brief() for m in s))
