"""Must-definedness analysis of the per-network cached state (typestate of `net._<key>`).

A forward, flow-sensitive, interprocedural walk over the statements of an entry point.  The abstract
state is

  defs   the cached keys (and sub-keys "K.s") that have *definitely* been (re)written since the entry
         was called, plus option facts "opt:<name>=<repr>" for entries of net._options whose constant
         value is known, and
  env    local names bound to constants (constant propagation; parameters bound from constant
         arguments / constant defaults).

A read of a cached key that is not in `defs` is a read of whatever an earlier calculation left on the
network object - a *stale read*.  Branches whose test folds to a constant are followed on that side
only; other branches join by intersection; loop bodies contribute nothing to the state after the loop;
handlers start from the state before the try.  Calls to functions of the repository that receive the
network are inlined (memoised per callee, in-state and constant parameters).

Nothing is executed; no path condition is kept.
"""
from __future__ import annotations

import ast
from typing import Dict, FrozenSet, List, Optional, Set, Tuple

from .astutil import dotted, norm
from .loader import FunctionInfo, Repo

MUTATING_METHODS = {"update", "pop", "setdefault", "clear", "append", "extend", "popitem", "remove", "insert"}
UNK = object()
_CONST_TYPES = (str, int, float, bool, type(None))


class Event:
    __slots__ = ("kind", "key", "sub", "fi", "node", "chain", "guarded")

    def __init__(self, kind, key, sub, fi, node, chain, guarded=False):
        self.kind = kind      # "read" | "write"
        self.key = key
        self.sub = sub        # None (whole) | str | "*"
        self.fi = fi
        self.node = node
        self.chain = chain    # tuple of function qualnames from the entry
        self.guarded = guarded

    def where(self):
        return f"{self.fi.module.name}::{self.fi.qualname}"

    def __repr__(self):
        return f"<{self.kind} {self.key}.{self.sub} in {self.where()}>"


class St:
    """immutable abstract state"""
    __slots__ = ("defs", "env")

    def __init__(self, defs: FrozenSet[str], env: Tuple):
        self.defs = defs
        self.env = env  # sorted tuple of (name, value)

    def envd(self) -> Dict[str, object]:
        return dict(self.env)

    def with_defs(self, defs):
        return St(frozenset(defs), self.env)

    def with_env(self, d: Dict[str, object]):
        return St(self.defs, tuple(sorted(d.items(), key=lambda kv: kv[0])))

    def key(self):
        return (self.defs, self.env)


def join(a: Optional[St], b: Optional[St]) -> Optional[St]:
    if a is None:
        return b
    if b is None:
        return a
    ea, eb = dict(a.env), dict(b.env)
    env = {k: v for k, v in ea.items() if k in eb and eb[k] == v and type(eb[k]) is type(v)}
    return St(a.defs & b.defs, tuple(sorted(env.items(), key=lambda kv: kv[0])))


def _assigned_names(body) -> Set[str]:
    out = set()
    for st in body:
        for n in ast.walk(st):
            if isinstance(n, ast.Name) and isinstance(n.ctx, (ast.Store, ast.Del)):
                out.add(n.id)
    return out


class StateWalk:
    def __init__(self, repo: Repo, keys: Set[str], options_key: str = "_options", max_depth: int = 16,
                 skip: Optional[Set[str]] = None, sticky_options: Optional[Set[str]] = None,
                 kwargs_never: Optional[Set[str]] = None):
        self.repo = repo
        self.kwargs_never = set(kwargs_never or ())
        self.sticky = set(sticky_options or ())
        self.keys = set(keys)
        self.okey = options_key
        self.max_depth = max_depth
        self.skip = skip or set()
        self.memo: Dict[Tuple, Tuple[Optional[St], List[Event]]] = {}
        self.visited: Set[str] = set()
        self.unresolved = 0
        self.resolved = 0
        self.folded_tests = 0
        self.fresh_reads = 0

    # ---- constant folding -----------------------------------------------------
    def fold(self, e, nets, st: St):
        env = dict(st.env)
        return self._fold(e, nets, st, env)

    def _opt(self, st: St, name: str):
        pre = f"opt:{name}="
        for d in st.defs:
            if d.startswith(pre):
                return _unrepr(d[len(pre):])
        return UNK

    def _fold(self, e, nets, st, env):
        if isinstance(e, ast.Constant) and isinstance(e.value, _CONST_TYPES):
            return e.value
        if isinstance(e, ast.Name):
            return env.get(e.id, UNK)
        if isinstance(e, (ast.List, ast.Tuple, ast.Set)):
            vals = [self._fold(x, nets, st, env) for x in e.elts]
            if any(v is UNK for v in vals):
                return UNK
            return tuple(vals)
        if isinstance(e, ast.Subscript):
            # net._options["k"]
            if self._direct_key(e.value, nets) == self.okey:
                k = self._fold(e.slice, nets, st, env)
                if isinstance(k, str):
                    return self._opt(st, k)
            return UNK
        if isinstance(e, ast.Call):
            f = e.func
            if isinstance(f, ast.Attribute) and f.attr == "get" and self._direct_key(f.value, nets) == self.okey and e.args:
                k = self._fold(e.args[0], nets, st, env)
                if isinstance(k, str):
                    return self._opt(st, k)
            return UNK
        if isinstance(e, ast.BinOp) and isinstance(e.op, (ast.Mod, ast.Add)):
            a, b = self._fold(e.left, nets, st, env), self._fold(e.right, nets, st, env)
            if a is UNK or b is UNK or _is_dict(a) or _is_dict(b):
                return UNK
            try:
                r = (a % b) if isinstance(e.op, ast.Mod) else (a + b)
            except Exception:
                return UNK
            return r if isinstance(r, _CONST_TYPES) else UNK
        if isinstance(e, ast.JoinedStr):
            out = ""
            for p_ in e.values:
                if isinstance(p_, ast.Constant):
                    out += str(p_.value)
                elif isinstance(p_, ast.FormattedValue) and p_.format_spec is None and p_.conversion == -1:
                    v = self._fold(p_.value, nets, st, env)
                    if v is UNK or _is_dict(v) or isinstance(v, tuple):
                        return UNK
                    out += str(v)
                else:
                    return UNK
            return out
        if isinstance(e, ast.IfExp):
            t = self._truth(e.test, nets, st, env)
            if t is UNK:
                a, b = self._fold(e.body, nets, st, env), self._fold(e.orelse, nets, st, env)
                return a if (a is not UNK and b is not UNK and a == b and type(a) is type(b)) else UNK
            return self._fold(e.body if t else e.orelse, nets, st, env)
        if isinstance(e, ast.UnaryOp) and isinstance(e.op, ast.Not):
            v = self._fold(e.operand, nets, st, env)
            return UNK if v is UNK else (not v)
        if isinstance(e, ast.UnaryOp) and isinstance(e.op, ast.USub):
            v = self._fold(e.operand, nets, st, env)
            return -v if isinstance(v, (int, float)) and not isinstance(v, bool) else UNK
        if isinstance(e, ast.BoolOp):
            vals = [self._truth(x, nets, st, env) for x in e.values]
            if isinstance(e.op, ast.And):
                if any(v is False for v in vals):
                    return False
                if all(v is True for v in vals):
                    return True
                return UNK
            if any(v is True for v in vals):
                return True
            if all(v is False for v in vals):
                return False
            return UNK
        if isinstance(e, ast.Compare) and len(e.ops) == 1:
            op = e.ops[0]
            r = e.comparators[0]
            # "s" in net[K]: decided by freshness of the container / sub-key
            if isinstance(op, (ast.In, ast.NotIn)):
                k = self._direct_key(r, nets)
                if k is not None and k != self.okey:
                    s = self._fold(e.left, nets, st, env)
                    if isinstance(s, str):
                        if f"{k}.{s}" in st.defs:
                            res = True
                        elif k in st.defs:
                            res = False
                        else:
                            return UNK
                        return res if isinstance(op, ast.In) else (not res)
                    return UNK
            a = self._fold(e.left, nets, st, env)
            b = self._fold(r, nets, st, env)
            if a is UNK or b is UNK:
                return UNK
            try:
                if isinstance(op, ast.Eq):
                    return a == b
                if isinstance(op, ast.NotEq):
                    return a != b
                if isinstance(op, ast.Is):
                    return a is b if (a is None or b is None or isinstance(a, bool) or isinstance(b, bool)) else UNK
                if isinstance(op, ast.IsNot):
                    return a is not b if (a is None or b is None or isinstance(a, bool) or isinstance(b, bool)) else UNK
                if isinstance(op, ast.In):
                    return a in b
                if isinstance(op, ast.NotIn):
                    return a not in b
            except TypeError:
                return UNK
            return UNK
        return UNK

    def _truth(self, e, nets, st, env):
        v = self._fold(e, nets, st, env)
        if v is UNK:
            return UNK
        return bool(v)

    def truth(self, e, nets, st: St):
        t = self._truth(e, nets, st, dict(st.env))
        if t is not UNK:
            self.folded_tests += 1
        return t

    # ---- access recognition -------------------------------------------------
    def _const_key(self, node, nets, st: Optional[St]) -> Optional[str]:
        if isinstance(node, ast.Constant) and isinstance(node.value, str):
            return node.value
        if st is not None:
            v = self.fold(node, nets, st)
            if isinstance(v, str):
                return v
        if isinstance(node, ast.BinOp) and isinstance(node.op, ast.Mod) and isinstance(node.left, ast.Constant) \
                and isinstance(node.left.value, str):
            if st is not None:
                r = self.fold(node.right, nets, st)
                if r is not UNK and not isinstance(r, tuple):
                    try:
                        return node.left.value % r
                    except Exception:
                        pass
            return node.left.value.split("%")[0] + "*"
        if isinstance(node, ast.JoinedStr) and node.values and isinstance(node.values[0], ast.Constant):
            return str(node.values[0].value) + "*"
        return None

    def _net_key(self, node, nets, st=None):
        """(key, sub) if node is net.K / net["K"] / net.K["s"] / net["K"]["s"] for a tracked K."""
        if isinstance(node, ast.Subscript):
            k = self._direct_key(node.value, nets, st)
            if k is not None:
                s = self._const_key(node.slice, nets, st)
                return k, (s if s is not None else "*")
        k = self._direct_key(node, nets, st)
        if k is not None:
            return k, None
        return None

    def _direct_key(self, node, nets, st=None) -> Optional[str]:
        if isinstance(node, ast.Attribute) and isinstance(node.value, ast.Name) and node.value.id in nets:
            k = node.attr
        elif isinstance(node, ast.Subscript) and isinstance(node.value, ast.Name) and node.value.id in nets:
            k = self._const_key(node.slice, nets, st)
        else:
            return None
        if k is None:
            return None
        if k in self.keys:
            return k
        if k.endswith("*"):
            for kk in self.keys:
                if kk.startswith(k[:-1]):
                    return k
        return None

    # ---- walking ------------------------------------------------------------
    def run(self, fi: FunctionInfo, nets: Optional[Set[str]] = None, init: FrozenSet[str] = frozenset(),
            consts: Optional[Dict[str, object]] = None):
        nets = nets if nets is not None else ({"net"} & set(fi.params) or set(fi.params[:1]))
        st = St(frozenset(init), tuple(sorted((consts or {}).items())))
        out, ev = self.func(fi, frozenset(nets), st, (fi.qualname,), 0)
        return out, ev

    def func(self, fi, nets: FrozenSet[str], st: St, chain, depth):
        key = (fi.fq, nets, st.key())
        if key in self.memo:
            return self.memo[key]
        self.visited.add(fi.fq)
        self.memo[key] = (St(st.defs, ()), [])  # recursion guard
        events: List[Event] = []
        rets: List[St] = []
        end = self.block(fi, fi.node.body, set(nets), st, events, rets, chain, depth)
        if end is not None:
            rets.append(end)
        out = None
        for r in rets:
            out = join(out, r)
        if out is not None:
            out = St(out.defs, ())
        self.memo[key] = (out, events)
        return out, events

    def block(self, fi, body, nets, st, events, rets, chain, depth):
        cur = st
        for s in body:
            if cur is None:
                break
            cur = self.stmt(fi, s, nets, cur, events, rets, chain, depth)
        return cur

    def _drop(self, st: St, names: Set[str]) -> St:
        if not names:
            return st
        return St(st.defs, tuple((k, v) for k, v in st.env if k not in names))

    def stmt(self, fi, s, nets, st: St, events, rets, chain, depth):
        X = lambda e, stt: self.expr(fi, e, nets, stt, events, chain, depth)
        if isinstance(s, (ast.FunctionDef, ast.AsyncFunctionDef, ast.ClassDef, ast.Import, ast.ImportFrom, ast.Pass,
                          ast.Global, ast.Nonlocal)):
            return st
        if isinstance(s, ast.Return):
            if s.value is not None:
                st = X(s.value, st)
            rets.append(st)
            return None
        if isinstance(s, ast.Raise):
            if s.exc is not None:
                X(s.exc, st)
            return None
        if isinstance(s, (ast.Break, ast.Continue)):
            return None
        if isinstance(s, ast.If):
            t = self.truth(s.test, nets, st)
            st = X(s.test, st)
            if t is True:
                return self.block(fi, s.body, nets, st, events, rets, chain, depth)
            if t is False:
                return self.block(fi, s.orelse, nets, st, events, rets, chain, depth) if s.orelse else st
            a = self.block(fi, s.body, nets, st, events, rets, chain, depth)
            b = self.block(fi, s.orelse, nets, st, events, rets, chain, depth) if s.orelse else st
            return join(a, b)
        if isinstance(s, (ast.For, ast.AsyncFor, ast.While)):
            hdr = s.iter if not isinstance(s, ast.While) else s.test
            st = X(hdr, st)
            names = _assigned_names(s.body) | ({n.id for n in ast.walk(s.target) if isinstance(n, ast.Name)}
                                               if not isinstance(s, ast.While) else set())
            inner = self._drop(st, names)
            self.block(fi, s.body, nets, inner, events, rets, chain, depth)
            if s.orelse:
                return self.block(fi, s.orelse, nets, inner, events, rets, chain, depth)
            return inner
        if isinstance(s, (ast.With, ast.AsyncWith)):
            for it in s.items:
                st = X(it.context_expr, st)
                if it.optional_vars is not None:
                    st = self._drop(st, {n.id for n in ast.walk(it.optional_vars) if isinstance(n, ast.Name)})
            return self.block(fi, s.body, nets, st, events, rets, chain, depth)
        if isinstance(s, ast.Try):
            a = self.block(fi, s.body, nets, st, events, rets, chain, depth)
            if s.orelse and a is not None:
                a = self.block(fi, s.orelse, nets, a, events, rets, chain, depth)
            res = a
            hin = self._drop(st, _assigned_names(s.body))
            for h in s.handlers:
                hb = self.block(fi, h.body, nets, hin, events, rets, chain, depth)
                res = join(res, hb)
            if s.finalbody:
                f = self.block(fi, s.finalbody, nets, hin, events, rets, chain, depth)
                if res is None:
                    return None
                if f is not None:
                    res = St(res.defs | (f.defs - hin.defs), res.env)
                    res = self._drop(res, _assigned_names(s.finalbody))
            return res
        if isinstance(s, ast.Assign):
            val = self.fold(s.value, nets, st)
            st = X(s.value, st)
            for t in s.targets:
                st = self.target(fi, t, s, nets, st, events, chain, depth, val)
            if isinstance(s.value, ast.Name) and s.value.id in nets:
                for t in s.targets:
                    if isinstance(t, ast.Name):
                        nets.add(t.id)
            return st
        if isinstance(s, ast.AugAssign):
            st = X(s.value, st)
            st = self.expr(fi, s.target, nets, st, events, chain, depth, load_override=True)
            return self._drop(st, {n.id for n in ast.walk(s.target) if isinstance(n, ast.Name) and isinstance(n.ctx, ast.Store)})
        if isinstance(s, ast.AnnAssign):
            if s.value is not None:
                val = self.fold(s.value, nets, st)
                st = X(s.value, st)
                st = self.target(fi, s.target, s, nets, st, events, chain, depth, val)
            return st
        if isinstance(s, ast.Delete):
            for t in s.targets:
                nk = self._net_key(t, nets, st)
                if nk:
                    k, sub = nk
                    events.append(Event("write", k, sub, fi, s, chain))
                    if sub is None:
                        st = st.with_defs({x for x in st.defs if x != k and not x.startswith(k + ".")})
                    else:
                        st = st.with_defs(st.defs - {f"{k}.{sub}"})
                elif isinstance(t, ast.Name):
                    st = self._drop(st, {t.id})
            return st
        for n in ast.iter_child_nodes(s):
            if isinstance(n, ast.expr):
                st = X(n, st)
        return st

    def _opt_tokens(self, defs, mapping: Dict[str, object]):
        """defs with option facts replaced for the given names (UNK removes the fact)"""
        out = {d for d in defs if not (d.startswith("opt:") and d[4:].split("=", 1)[0] in mapping)}
        for k, v in mapping.items():
            if v is not UNK and isinstance(v, _CONST_TYPES):
                out.add(f"opt:{k}={v!r}")
        return out

    def target(self, fi, t, s, nets, st: St, events, chain, depth, val=UNK):
        if isinstance(t, (ast.Tuple, ast.List)):
            for e in t.elts:
                st = self.target(fi, e, s, nets, st, events, chain, depth, UNK)
            return st
        if isinstance(t, ast.Starred):
            return self.target(fi, t.value, s, nets, st, events, chain, depth, UNK)
        if isinstance(t, ast.Name):
            env = dict(st.env)
            if val is not UNK and isinstance(val, _CONST_TYPES):
                env[t.id] = val
            else:
                # dict literal with constant entries (option dictionaries)
                v = getattr(s, "value", None)
                d = self._dict_literal(v, nets, st) if isinstance(v, (ast.Dict, ast.Call)) else None
                if d is not None:
                    env[t.id] = ("dict", tuple(sorted(d.items(), key=lambda kv: kv[0])))
                else:
                    env.pop(t.id, None)
            return st.with_env(env)
        nk = self._net_key(t, nets, st)
        if nk is not None:
            k, sub = nk
            if sub is None:
                events.append(Event("write", k, None, fi, s, chain))
                new = {x for x in st.defs if not x.startswith(k + ".")} | {k}
                if k == self.okey:
                    new = {x for x in new if not x.startswith("opt:")}
                v = getattr(s, "value", None)
                if isinstance(v, ast.Dict):
                    for kk in v.keys:
                        if isinstance(kk, ast.Constant) and isinstance(kk.value, str):
                            new.add(f"{k}.{kk.value}")
                    if k == self.okey:
                        d = self._dict_literal(v, nets, st)
                        if d:
                            new = self._opt_tokens(new, {a: (b if b is not None or True else b) for a, b in d.items()})
                return st.with_defs(new)
            # sub-key store
            events.append(Event("write", k, sub, fi, s, chain))
            if isinstance(t, ast.Subscript):
                st = self.expr(fi, t.slice, nets, st, events, chain, depth)
            new = set(st.defs)
            if sub != "*":
                new.add(f"{k}.{sub}")
                if k == self.okey:
                    new = self._opt_tokens(new, {sub: val})
            elif k == self.okey:
                new = {x for x in new if not x.startswith("opt:")}
            return st.with_defs(new)
        if isinstance(t, (ast.Subscript, ast.Attribute)):
            st = self.expr(fi, t.value, nets, st, events, chain, depth)
            if isinstance(t, ast.Subscript):
                st = self.expr(fi, t.slice, nets, st, events, chain, depth)
        return st

    def _dict_literal(self, v, nets, st) -> Optional[Dict[str, object]]:
        """{name: const|UNK} for a dict display / dict(...) call with string keys"""
        if isinstance(v, ast.Dict):
            out = {}
            for k, x in zip(v.keys, v.values):
                if k is None:
                    return None
                kk = self.fold(k, nets, st)
                if not isinstance(kk, str):
                    return None
                out[kk] = self.fold(x, nets, st)
            return out
        if isinstance(v, ast.Call) and isinstance(v.func, ast.Name) and v.func.id == "dict" and not v.args:
            out = {}
            for kw in v.keywords:
                if kw.arg is None:
                    return None
                out[kw.arg] = self.fold(kw.value, nets, st)
            return out
        return None

    def _read(self, fi, k, sub, node, st: St, events, chain, guarded=False):
        fresh = k in st.defs or (sub is not None and sub != "*" and f"{k}.{sub}" in st.defs)
        if k.endswith("*"):
            fresh = any(x.startswith(k[:-1]) for x in st.defs)
        if not fresh:
            events.append(Event("read", k, sub, fi, node, chain, guarded))
        else:
            self.fresh_reads += 1

    def expr(self, fi, e, nets, st: St, events, chain, depth, load_override=False):
        if e is None:
            return st
        X = lambda x, stt: self.expr(fi, x, nets, stt, events, chain, depth)
        if isinstance(e, (ast.Lambda, ast.GeneratorExp, ast.ListComp, ast.SetComp, ast.DictComp)):
            if isinstance(e, ast.Lambda):
                return st
            names = {n.id for g in e.generators for n in ast.walk(g.target) if isinstance(n, ast.Name)}
            inner = self._drop(st, names)
            for g in e.generators:
                inner = X(g.iter, inner)
                for c in g.ifs:
                    inner = X(c, inner)
            for n in ast.iter_child_nodes(e):
                if isinstance(n, ast.expr):
                    inner = X(n, inner)
            return St(st.defs, st.env)
        if isinstance(e, ast.Compare) and len(e.ops) == 1 and isinstance(e.ops[0], (ast.In, ast.NotIn)):
            c = e.comparators[0]
            if (isinstance(c, ast.Name) and c.id in nets) or \
                    (isinstance(c, ast.Call) and isinstance(c.func, ast.Attribute) and c.func.attr in ("keys", "__dict__")
                     and isinstance(c.func.value, ast.Name) and c.func.value.id in nets):
                return X(e.left, st)
            # "s" in net[K]: existence test on a cached container - licensed when the container is fresh
            k = self._direct_key(c, nets, st)
            if k is not None:
                self._read(fi, k, None, c, st, events, chain, guarded=True)
                return X(e.left, st)
        nk = self._net_key(e, nets, st) if isinstance(e, (ast.Attribute, ast.Subscript)) else None
        if nk is not None and (isinstance(getattr(e, "ctx", None), ast.Load) or load_override):
            k, sub = nk
            self._read(fi, k, sub, e, st, events, chain)
            if isinstance(e, ast.Subscript) and self._direct_key(e.value, nets, st):
                st = X(e.slice, st)
            return st
        if isinstance(e, ast.Call):
            return self.call(fi, e, nets, st, events, chain, depth)
        if isinstance(e, ast.BoolOp):
            cur = st
            first = True
            is_and = isinstance(e.op, ast.And)
            for v in e.values:
                t = self.truth(v, nets, cur)
                s2 = X(v, cur)
                if first:
                    st = s2
                    cur = s2
                    first = False
                if (is_and and t is False) or ((not is_and) and t is True):
                    break  # later operands are never evaluated
            return st
        if isinstance(e, ast.IfExp):
            t = self.truth(e.test, nets, st)
            st = X(e.test, st)
            if t is True:
                return X(e.body, st)
            if t is False:
                return X(e.orelse, st)
            a = X(e.body, st)
            b = X(e.orelse, st)
            return join(a, b)
        for n in ast.iter_child_nodes(e):
            if isinstance(n, ast.expr):
                st = X(n, st)
        return st

    def call(self, fi, c: ast.Call, nets, st: St, events, chain, depth):
        f = c.func
        X = lambda x, stt: self.expr(fi, x, nets, stt, events, chain, depth)
        if isinstance(f, ast.Attribute) and f.attr == "get" and isinstance(f.value, ast.Name) and f.value.id in nets and c.args:
            k = self._const_key(c.args[0], nets, st)
            if k in self.keys:
                self._read(fi, k, None, c, st, events, chain, guarded=True)
                return st
        if isinstance(f, ast.Name) and f.id == "getattr" and len(c.args) >= 2 and isinstance(c.args[0], ast.Name) \
                and c.args[0].id in nets:
            k = self._const_key(c.args[1], nets, st)
            if k in self.keys:
                self._read(fi, k, None, c, st, events, chain, guarded=True)
                return st
        if isinstance(f, ast.Attribute) and f.attr in MUTATING_METHODS:
            nk = self._net_key(f.value, nets, st) if isinstance(f.value, (ast.Attribute, ast.Subscript)) else None
            if nk is not None:
                for a in list(c.args) + [kw.value for kw in c.keywords]:
                    st = X(a, st)
                k, sub = nk
                self._read(fi, k, sub, c, st, events, chain)
                events.append(Event("write", k, "*", fi, c, chain))
                if k == self.okey and sub is None:
                    if f.attr == "update" and len(c.args) == 1 and not c.keywords:
                        d = None
                        a0 = c.args[0]
                        if isinstance(a0, ast.Name):
                            v = dict(st.env).get(a0.id)
                            if isinstance(v, tuple) and v and v[0] == "dict":
                                d = dict(v[1])
                        else:
                            d = self._dict_literal(a0, nets, st)
                        if d is not None:
                            new = self._opt_tokens(st.defs, d)
                            new |= {f"{k}.{n}" for n in d}
                            return st.with_defs(new)
                    # unknown update: every option fact may be overwritten (except the sticky internal ones)
                    return st.with_defs({x for x in st.defs if not x.startswith("opt:")
                                         or x[4:].split("=", 1)[0] in self.sticky})
                return st
        if isinstance(f, ast.Attribute) and f.attr in MUTATING_METHODS and isinstance(f.value, ast.Name):
            v = dict(st.env).get(f.value.id)
            if _is_dict(v):
                d = dict(v[1])
                lit = self._dict_literal(c.args[0], nets, st) if (f.attr == "update" and len(c.args) == 1 and not c.keywords) else None
                if lit is not None:
                    d.update(lit)
                else:
                    d = {k: UNK for k in d}
                env = dict(st.env)
                env[f.value.id] = ("dict", tuple(sorted(d.items(), key=lambda kv: kv[0])))
                st = st.with_env(env)
        if isinstance(f, ast.Attribute):
            st = X(f.value, st)
        for a in c.args:
            st = X(a.value if isinstance(a, ast.Starred) else a, st)
        for kw in c.keywords:
            st = X(kw.value, st)
        name = dotted(f)
        target = None
        if name:
            if name.startswith("self.") and fi.cls:
                ci = fi.module.classes.get(fi.cls)
                if ci is not None:
                    target = self.repo.resolve_method(ci, name[5:])
            else:
                r = self.repo.resolve(fi.module.name, name)
                if isinstance(r, FunctionInfo):
                    target = r
        passes_net = any(isinstance(a, ast.Name) and a.id in nets for a in c.args) or \
            any(isinstance(kw.value, ast.Name) and kw.value.id in nets for kw in c.keywords)
        if target is None or not isinstance(target, FunctionInfo):
            if passes_net:
                self.unresolved += 1
            return st
        fn = target.node
        params = target.params
        off = 1 if (target.cls and params and params[0] in ("self", "cls") and not isinstance(f, ast.Name)) else 0
        cal_nets = set()
        consts: Dict[str, object] = {}
        bound = set()
        star = any(isinstance(a, ast.Starred) for a in c.args) or any(kw.arg is None for kw in c.keywords)
        for i, a in enumerate(c.args):
            if isinstance(a, ast.Starred):
                break
            if i + off >= len(params):
                break
            p = params[i + off]
            bound.add(p)
            if isinstance(a, ast.Name) and a.id in nets:
                cal_nets.add(p)
            else:
                v = self.fold(a, nets, st)
                if v is not UNK and (isinstance(v, _CONST_TYPES) or _is_dict(v)):
                    consts[p] = v
        for kw in c.keywords:
            if kw.arg and kw.arg in params:
                bound.add(kw.arg)
                if isinstance(kw.value, ast.Name) and kw.value.id in nets:
                    cal_nets.add(kw.arg)
                else:
                    v = self.fold(kw.value, nets, st)
                    if v is not UNK and (isinstance(v, _CONST_TYPES) or _is_dict(v)):
                        consts[kw.arg] = v
        if not cal_nets:
            return st
        only_kw_star = not any(isinstance(a, ast.Starred) for a in c.args)
        if not star or only_kw_star:
            # constant defaults of parameters that the call leaves out (under **kwargs forwarding only for the
            # parameter names that are assumed never to travel through **kwargs)
            a_ = fn.args
            pos = a_.posonlyargs + a_.args
            pairs = list(zip(pos[len(pos) - len(a_.defaults):], a_.defaults)) + \
                [(p, d) for p, d in zip(a_.kwonlyargs, a_.kw_defaults) if d is not None]
            for p, d in pairs:
                if star and p.arg not in self.kwargs_never:
                    continue
                if p.arg not in bound and isinstance(d, ast.Constant) and isinstance(d.value, _CONST_TYPES):
                    consts[p.arg] = d.value
        self.resolved += 1
        if target.fq in self.skip or depth >= self.max_depth:
            return st
        cst = St(st.defs, tuple(sorted(consts.items(), key=lambda kv: kv[0])))
        out, evs = self.func(target, frozenset(cal_nets), cst, chain + (target.qualname,), depth + 1)
        events.extend(evs)
        if out is None:
            # the callee never returns normally on the analysed paths (always raises): keep the state
            return st
        return St(out.defs, st.env)


def _is_dict(v):
    return isinstance(v, tuple) and len(v) == 2 and v[0] == "dict"


def _unrepr(s: str):
    try:
        return ast.literal_eval(s)
    except Exception:
        return UNK
