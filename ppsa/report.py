"""Obligations, evidence, VIOLATION / KNOWN-FINDING lines, replay files."""
from __future__ import annotations

import hashlib
import json
import os
import time
from typing import Any, Dict, List, Optional

from .loader import AnalysisError, Repo

VERIF = os.path.dirname(os.path.dirname(os.path.abspath(__file__)))
EVID_DIR = os.environ.get("PPSA_EVIDENCE_DIR") or os.path.join(VERIF, "evidence")
REPLAY_DIR = os.path.join(EVID_DIR, "replay")
KNOWN_FILE = os.path.join(VERIF, "known_findings.json")


class Obligation:
    __slots__ = ("rule", "key", "ok", "what", "loc", "nontrivial", "detail")

    def __init__(self, rule, key, ok, what, loc, nontrivial, detail):
        self.rule = rule
        self.key = key
        self.ok = ok
        self.what = what
        self.loc = loc
        self.nontrivial = nontrivial
        self.detail = detail

    def as_dict(self):
        d = {"rule": self.rule, "key": self.key, "ok": self.ok, "what": self.what, "loc": self.loc}
        if self.detail is not None:
            d["detail"] = self.detail
        return d


class Ctx:
    """Collects the obligations of one property check over one Repo (tree or overlay)."""

    def __init__(self, pid: str, repo: Repo, tier: str = "quick"):
        self.pid = pid
        self.repo = repo
        self.tier = tier
        self.obligations: List[Obligation] = []
        self.infos: List[str] = []
        self.rules: Dict[str, str] = {}
        self.assumptions: List[str] = []
        self.counters: Dict[str, int] = {}
        self.minimums: Dict[str, int] = {}

    # -- recording ------------------------------------------------------
    def rule(self, name: str, text: str):
        self.rules[name] = text

    def assume(self, text: str):
        if text not in self.assumptions:
            self.assumptions.append(text)

    def ob(self, rule: str, key: str, ok: bool, what: str, loc: str = "", nontrivial: bool = True,
           detail: Any = None):
        """key: module::function::construct (the rule name is prefixed)."""
        full = f"{rule}::{key}"
        self.obligations.append(Obligation(rule, full, bool(ok), what, loc, nontrivial, detail))
        return ok

    def info(self, msg: str):
        self.infos.append(msg)

    def count(self, name: str, n: int = 1):
        self.counters[name] = self.counters.get(name, 0) + n

    def require_min(self, rule: str, n: int):
        """The rule must have examined at least n instances (confirmed by reading)."""
        self.minimums[rule] = n

    def fail(self, msg: str):
        raise AnalysisError(msg)

    # -- results --------------------------------------------------------
    def violations(self) -> List[Obligation]:
        seen = set()
        out = []
        for o in self.obligations:
            if not o.ok and o.key not in seen:
                seen.add(o.key)
                out.append(o)
        return out

    def check_minimums(self):
        for rule, n in self.minimums.items():
            got = sum(1 for o in self.obligations if o.rule == rule)
            if got < n:
                raise AnalysisError(
                    f"rule {rule} examined {got} instances, fewer than the {n} confirmed by reading "
                    f"(anchor moved or rule no longer matches)")


def load_known() -> Dict[str, Any]:
    if not os.path.exists(KNOWN_FILE):
        return {"findings": [], "fixed": []}
    with open(KNOWN_FILE) as f:
        return json.load(f)


def finish(ctx: Ctx, t0: float, seed: int = 0, extra_cov: Optional[Dict[str, Any]] = None,
           only_key: Optional[str] = None) -> int:
    """Print lines, write evidence, return the exit code."""
    known = load_known()
    known_keys = {k["key"]: k for k in known.get("findings", []) if k.get("property") == ctx.pid}
    viols = ctx.violations()
    if only_key:
        viols = [v for v in viols if v.key == only_key]
    new = [v for v in viols if v.key not in known_keys]
    old = [v for v in viols if v.key in known_keys]
    os.makedirs(REPLAY_DIR, exist_ok=True)
    for v in old:
        print(f"KNOWN-FINDING: property={ctx.pid} {v.key} -- {known_keys[v.key].get('what', v.what)}")
    for v in new:
        h = hashlib.sha1(v.key.encode()).hexdigest()[:10]
        path = os.path.join(REPLAY_DIR, f"{ctx.pid}-{h}.json")
        with open(path, "w") as f:
            json.dump({"property": ctx.pid, "key": v.key, "rule": v.rule,
                       "rule_text": ctx.rules.get(v.rule, ""), "what": v.what, "loc": v.loc,
                       "detail": v.detail}, f, indent=1, default=str)
        print(f"VIOLATION property={ctx.pid} replay={path}")
        print(f"  {v.loc}: [{v.rule}] {v.what}")
        print(f"  key: {v.key}")
    # known findings that no longer reproduce are only noted
    keys_now = {v.key for v in viols}
    for k in known_keys:
        if k not in keys_now and not only_key:
            print(f"NOTE: listed known finding no longer reported: {k}")
    obs = ctx.obligations
    distinct = {o.key for o in obs if o.nontrivial}
    samples = []
    seen_rules = {}
    for o in obs:
        if seen_rules.get(o.rule, 0) < 3:
            seen_rules[o.rule] = seen_rules.get(o.rule, 0) + 1
            samples.append(o.as_dict())
    cov = {
        "explanation": ("static analysis (ast) of /repo's working tree; each obligation is one rule "
                        "instance (function / call site / table pair / path) decided from the syntax "
                        "tree; nothing is executed"),
        "evaluations": len(obs),
        "distinct_nontrivial": len(distinct),
        "rule": "an obligation is non-trivial when its sink/anchor was found and the fact compared is "
                "non-empty; distinct = distinct rule::module::function::construct keys",
        "obligations": len(obs),
        "discharged": sum(1 for o in obs if o.ok),
        "samples": samples[:40],
        "rules": ctx.rules,
        "obligations_per_rule": {r: sum(1 for o in obs if o.rule == r) for r in sorted({o.rule for o in obs})},
        "files_consulted": len(ctx.repo.consulted),
        "tree_digest": ctx.repo.digest(),
        "known_findings_reported": [v.key for v in old],
        "new_violations": [v.key for v in new],
        "counters": ctx.counters,
        "infos": ctx.infos[:60],
        "exhaustive": False,
    }
    if extra_cov:
        cov.update(extra_cov)
    ev = {
        "property_id": ctx.pid,
        "tier": ctx.tier,
        "seed": int(seed),
        "level": "other",
        "coverage": cov,
        "assumptions": ctx.assumptions,
        "wall_s": round(time.time() - t0, 3),
        "violations": len(new),
    }
    os.makedirs(EVID_DIR, exist_ok=True)
    with open(os.path.join(EVID_DIR, f"{ctx.pid}.json"), "w") as f:
        json.dump(ev, f, indent=1, default=str)
    print(f"{ctx.pid} [{ctx.tier}] obligations={len(obs)} discharged={cov['discharged']} "
          f"known={len(old)} new_violations={len(new)} files={len(ctx.repo.consulted)} "
          f"wall={ev['wall_s']}s")
    return 1 if new else 0
