"""The repository's own definition of input data, read statically:
 * pandapower/network_structure.py : get_structure_dict() -> table -> {column: dtype}
 * pandapower/network_schema/*.py  : pandera schemas -> columns, foreign keys, isin domains
"""
from __future__ import annotations

import ast
from typing import Dict, List, Optional, Set, Tuple

from .astutil import fold, NOFOLD, kwarg, dotted
from .loader import AnalysisError, Repo


class SchemaCol:
    __slots__ = ("table", "name", "foreign_key", "isin", "required")

    def __init__(self, table, name):
        self.table = table
        self.name = name
        self.foreign_key: Optional[str] = None
        self.isin: Optional[List] = None
        self.required = True


class Schema:
    def __init__(self, repo: Repo):
        self.repo = repo
        self.structure: Dict[str, Dict[str, str]] = {}
        self.columns: Dict[str, Dict[str, SchemaCol]] = {}  # schema tables (input and res_)
        self._read_structure()
        self._read_schemas()

    def _read_structure(self):
        m = self.repo.module("pandapower.network_structure")
        fi = m.functions.get("get_structure_dict")
        if fi is None:
            raise AnalysisError("network_structure.get_structure_dict vanished")
        for st in ast.walk(fi.node):
            if isinstance(st, ast.Return) and isinstance(st.value, ast.Dict):
                for k, v in zip(st.value.keys, st.value.values):
                    if isinstance(k, ast.Constant) and isinstance(k.value, str):
                        cols = {}
                        if isinstance(v, ast.Dict):
                            for ck, cv in zip(v.keys, v.values):
                                if isinstance(ck, ast.Constant) and isinstance(ck.value, str):
                                    cols[ck.value] = ast.unparse(cv)
                            self.structure[k.value] = cols
                        else:
                            self.structure.setdefault(k.value, None)
        if len([t for t, c in self.structure.items() if c]) < 30:
            raise AnalysisError("network_structure: fewer than 30 element tables found")

    def _read_schemas(self):
        for mn in self.repo.module_names():
            if not mn.startswith("pandapower.network_schema.") or ".tools" in mn:
                continue
            m = self.repo.module(mn)
            pairs = []
            for st in m.tree.body:      # X_schema = [Y_schema =] pa.DataFrameSchema(<dict literal | module-level name>, ...)
                if isinstance(st, ast.Assign) and isinstance(st.value, ast.Call):
                    for tg in st.targets:
                        if isinstance(tg, ast.Name) and tg.id.endswith("_schema"):
                            pairs.append((tg.id, st.value))
            for name, val in pairs:
                table = name[: -len("_schema")]
                if not val.args:
                    continue
                dnode = val.args[0]
                if isinstance(dnode, ast.Name) and isinstance(m.assigns.get(dnode.id), ast.Dict):
                    dnode = m.assigns[dnode.id]
                if not isinstance(dnode, ast.Dict):
                    raise AnalysisError(f"{m.relpath}: columns of {name} are not a dict literal or a module-level dict")
                cols = {}
                for k, v in zip(dnode.keys, dnode.values):
                    if not (isinstance(k, ast.Constant) and isinstance(k.value, str)):
                        continue
                    sc = SchemaCol(table, k.value)
                    if isinstance(v, ast.Call):
                        md = kwarg(v, "metadata")
                        if md is not None:
                            f = fold(md)
                            if isinstance(f, dict) and "foreign_key" in f:
                                sc.foreign_key = f["foreign_key"]
                        rq = kwarg(v, "required")
                        if rq is not None and isinstance(rq, ast.Constant):
                            sc.required = bool(rq.value)
                        for c in ast.walk(v):
                            if isinstance(c, ast.Call) and dotted(c.func) and dotted(c.func).endswith("Check.isin") and c.args:
                                f = fold(c.args[0])
                                if f is not NOFOLD:
                                    sc.isin = list(f)
                    cols[k.value] = sc
                self.columns[table] = cols
        if len([t for t in self.columns if not t.startswith("res_")]) < 28:
            raise AnalysisError("network_schema: fewer than 28 input-table schemas read")

    # ------------------------------------------------------------------
    def element_tables(self) -> List[str]:
        return [t for t, c in self.structure.items() if c and not t.startswith("res_") and not t.startswith("_")]

    def is_table(self, name: str) -> bool:
        return name in self.structure and isinstance(self.structure[name], dict)

    def input_columns(self, table: str) -> Set[str]:
        s = set()
        if table in self.columns:
            s |= set(self.columns[table])
        if self.structure.get(table):
            s |= set(self.structure[table])
        return s

    def foreign_keys(self) -> List[Tuple[str, str, str]]:
        out = []
        for t, cols in sorted(self.columns.items()):
            for c, sc in sorted(cols.items()):
                if sc.foreign_key:
                    out.append((t, c, sc.foreign_key))
        return out
