"""Source loader: parses pandapower/**/*.py (tests excluded) of the current working tree.

An *overlay* {relative path: source text} replaces files in memory, so self-test variants
never touch the disk.  Nothing is imported or executed.
"""
from __future__ import annotations

import ast
import hashlib
import os
from typing import Dict, Iterable, Iterator, List, Optional, Tuple

REPO_ROOT = os.environ.get("PPSA_REPO", "/repo")
PKG = "pandapower"


class AnalysisError(Exception):
    """The checker cannot decide (vanished anchor, unparsable file, undecidable sink)."""


class FunctionInfo:
    __slots__ = ("module", "qualname", "node", "cls")

    def __init__(self, module: "ModuleInfo", qualname: str, node: ast.AST, cls: Optional[str]):
        self.module = module
        self.qualname = qualname
        self.node = node
        self.cls = cls

    @property
    def fq(self) -> str:
        return f"{self.module.name}:{self.qualname}"

    @property
    def name(self) -> str:
        return self.qualname.rsplit(".", 1)[-1]

    @property
    def params(self) -> List[str]:
        a = self.node.args
        return [x.arg for x in a.posonlyargs + a.args + a.kwonlyargs]

    def loc(self, node: Optional[ast.AST] = None) -> str:
        n = node if node is not None else self.node
        return f"{self.module.relpath}:{getattr(n, 'lineno', 0)}"

    def __repr__(self):
        return f"<fn {self.fq}>"


class ClassInfo:
    __slots__ = ("module", "name", "node", "bases", "methods")

    def __init__(self, module, name, node):
        self.module = module
        self.name = name
        self.node = node
        self.bases = [b for b in node.bases]
        self.methods: Dict[str, FunctionInfo] = {}

    @property
    def fq(self):
        return f"{self.module.name}:{self.name}"


class ModuleInfo:
    def __init__(self, repo: "Repo", name: str, relpath: str, src: str):
        self.repo = repo
        self.name = name
        self.relpath = relpath
        self.src = src
        try:
            self.tree = ast.parse(src, filename=relpath)
        except SyntaxError as e:  # pragma: no cover
            raise AnalysisError(f"cannot parse {relpath}: {e}")
        self.is_pkg = relpath.endswith("__init__.py")
        self.functions: Dict[str, FunctionInfo] = {}
        self.classes: Dict[str, ClassInfo] = {}
        self.imports: Dict[str, Tuple[str, Optional[str]]] = {}  # local -> (module, attr|None)
        self.star_imports: List[str] = []
        self.assigns: Dict[str, ast.AST] = {}  # module-level simple assignments name -> value
        self._index()

    # ------------------------------------------------------------------
    def _abs_module(self, level: int, module: Optional[str]) -> str:
        if level == 0:
            return module or ""
        parts = self.name.split(".")
        if not self.is_pkg:
            parts = parts[:-1]
        if level > 1:
            parts = parts[: len(parts) - (level - 1)]
        base = ".".join(parts)
        if module:
            return f"{base}.{module}" if base else module
        return base

    def _index(self):
        def visit_body(body, prefix, cls):
            for st in body:
                if isinstance(st, (ast.FunctionDef, ast.AsyncFunctionDef)):
                    qn = f"{prefix}{st.name}"
                    fi = FunctionInfo(self, qn, st, cls.name if cls else None)
                    # the last definition wins (as at import time)
                    self.functions[qn] = fi
                    if cls is not None:
                        cls.methods[st.name] = fi
                    # nested functions
                    visit_body(st.body, qn + ".<locals>.", None)
                elif isinstance(st, ast.ClassDef):
                    ci = ClassInfo(self, prefix + st.name, st)
                    self.classes[prefix + st.name] = ci
                    visit_body(st.body, prefix + st.name + ".", ci)
                elif isinstance(st, (ast.If, ast.Try, ast.With)) and cls is None:
                    # conditional definitions at module level (try: import ... except)
                    for sub in ast.iter_child_nodes(st):
                        pass
                    for blk in _blocks(st):
                        visit_body(blk, prefix, cls)

        for st in ast.walk(self.tree):
            if isinstance(st, ast.Import):
                for al in st.names:
                    local = al.asname or al.name.split(".")[0]
                    target = al.name if al.asname else al.name.split(".")[0]
                    self.imports.setdefault(local, (target, None))
            elif isinstance(st, ast.ImportFrom):
                mod = self._abs_module(st.level, st.module)
                for al in st.names:
                    if al.name == "*":
                        self.star_imports.append(mod)
                    else:
                        self.imports.setdefault(al.asname or al.name, (mod, al.name))
        visit_body(self.tree.body, "", None)
        def visit_assigns(body):
            for st in body:
                if isinstance(st, ast.Assign) and len(st.targets) == 1 and isinstance(st.targets[0], ast.Name):
                    self.assigns.setdefault(st.targets[0].id, st.value)
                elif isinstance(st, ast.AnnAssign) and isinstance(st.target, ast.Name) and st.value is not None:
                    self.assigns.setdefault(st.target.id, st.value)
                elif isinstance(st, (ast.If, ast.Try, ast.With)):
                    for blk in _blocks(st):
                        visit_assigns(blk)
        visit_assigns(self.tree.body)


def _blocks(st) -> Iterator[list]:
    for f in ("body", "orelse", "finalbody"):
        b = getattr(st, f, None)
        if b:
            yield b
    for h in getattr(st, "handlers", []) or []:
        yield h.body


class Repo:
    """All non-test source modules of the pandapower package."""

    def __init__(self, root: str = REPO_ROOT, overlay: Optional[Dict[str, str]] = None):
        self.root = root
        self.overlay = dict(overlay or {})
        self.modules: Dict[str, ModuleInfo] = {}
        self._paths: Dict[str, str] = {}
        self.consulted: Dict[str, str] = {}
        pkgroot = os.path.join(root, PKG)
        if not os.path.isdir(pkgroot):
            raise AnalysisError(f"{pkgroot} not found")
        for dp, dns, fns in os.walk(pkgroot):
            dns[:] = sorted(d for d in dns if d not in ("test", "__pycache__", "tests"))
            for fn in sorted(fns):
                if not fn.endswith(".py"):
                    continue
                full = os.path.join(dp, fn)
                rel = os.path.relpath(full, root)
                mod = rel[:-3].replace(os.sep, ".")
                if mod.endswith(".__init__"):
                    mod = mod[: -len(".__init__")]
                self._paths[mod] = rel
        for rel in self.overlay:
            mod = rel[:-3].replace("/", ".")
            if mod.endswith(".__init__"):
                mod = mod[: -len(".__init__")]
            self._paths.setdefault(mod, rel)

    # ------------------------------------------------------------------
    def read(self, rel: str) -> str:
        if rel in self.overlay:
            return self.overlay[rel]
        with open(os.path.join(self.root, rel), "r", encoding="utf-8", errors="replace") as f:
            return f.read()

    def module_names(self) -> List[str]:
        return sorted(self._paths)

    def has_module(self, name: str) -> bool:
        return name in self._paths

    def module(self, name: str) -> ModuleInfo:
        m = self.modules.get(name)
        if m is None:
            rel = self._paths.get(name)
            if rel is None:
                raise AnalysisError(f"module {name} not found in {self.root}")
            src = self.read(rel)
            m = ModuleInfo(self, name, rel, src)
            self.modules[name] = m
            self.consulted[rel] = hashlib.sha1(src.encode("utf-8", "replace")).hexdigest()[:12]
        return m

    def all_modules(self) -> List[ModuleInfo]:
        return [self.module(n) for n in self.module_names()]

    def func(self, fq: str) -> FunctionInfo:
        """fq = 'pandapower.build_branch:_calc_line_parameter' or 'mod:Class.method'."""
        mod, qn = fq.split(":")
        m = self.module(mod)
        f = m.functions.get(qn)
        if f is None:
            raise AnalysisError(f"anchor function vanished: {fq}")
        return f

    def try_func(self, fq: str) -> Optional[FunctionInfo]:
        try:
            return self.func(fq)
        except AnalysisError:
            return None

    def cls(self, fq: str) -> ClassInfo:
        mod, qn = fq.split(":")
        c = self.module(mod).classes.get(qn)
        if c is None:
            raise AnalysisError(f"anchor class vanished: {fq}")
        return c

    # ------------------------------------------------------------------
    def resolve(self, module: str, name: str, _depth: int = 0):
        """Resolve a (possibly dotted) name used in *module* to a FunctionInfo / ClassInfo /
        ('module', name) / ('external', dotted) / ('const', node) / None."""
        if _depth > 12:
            return None
        if not self.has_module(module):
            return ("external", f"{module}.{name}")
        m = self.module(module)
        head, _, rest = name.partition(".")
        # local definitions
        if not rest:
            if head in m.functions and "." not in head:
                return m.functions[head]
            if head in m.classes:
                return m.classes[head]
        else:
            if name in m.functions:
                return m.functions[name]
            if head in m.classes:
                ci = m.classes[head]
                r = self.resolve_method(ci, rest)
                if r is not None:
                    return r
        if head in m.imports:
            tmod, attr = m.imports[head]
            if attr is None:
                # "import a.b as c" / "import a"
                full = tmod
                if rest:
                    # walk dotted path through packages
                    parts = rest.split(".")
                    while parts and self.has_module(full + "." + parts[0]):
                        full = full + "." + parts.pop(0)
                    if not parts:
                        return ("module", full)
                    if self.has_module(full):
                        return self.resolve(full, ".".join(parts), _depth + 1)
                    return ("external", f"{full}.{'.'.join(parts)}")
                if self.has_module(full):
                    return ("module", full)
                return ("external", full)
            # from tmod import attr
            if self.has_module(tmod + "." + attr):
                sub = tmod + "." + attr
                # attr may be both a submodule and a name exported by the package; prefer
                # the package attribute if the package defines/imports it
                if self.has_module(tmod):
                    pm = self.module(tmod)
                    if attr in pm.functions or attr in pm.classes or attr in pm.imports:
                        r = self.resolve(tmod, attr + ("." + rest if rest else ""), _depth + 1)
                        if r is not None and not (isinstance(r, tuple) and r[0] == "external"):
                            return r
                if rest:
                    return self.resolve(sub, rest, _depth + 1)
                return ("module", sub)
            if self.has_module(tmod):
                return self.resolve(tmod, attr + ("." + rest if rest else ""), _depth + 1)
            return ("external", f"{tmod}.{attr}" + ("." + rest if rest else ""))
        if not rest and head in m.assigns:
            return ("const", m.assigns[head], m)
        for sm in m.star_imports:
            if self.has_module(sm):
                r = self.resolve(sm, name, _depth + 1)
                if r is not None:
                    return r
        return None

    def resolve_method(self, ci: ClassInfo, meth: str, _seen=None):
        _seen = _seen or set()
        if ci.fq in _seen:
            return None
        _seen.add(ci.fq)
        if meth in ci.methods:
            return ci.methods[meth]
        for b in ci.bases:
            try:
                bn = ast.unparse(b)
            except Exception:
                continue
            r = self.resolve(ci.module.name, bn)
            if isinstance(r, ClassInfo):
                got = self.resolve_method(r, meth, _seen)
                if got is not None:
                    return got
        return None

    def mro_names(self, ci: ClassInfo, _seen=None) -> List[str]:
        _seen = _seen or set()
        out = [ci.fq]
        _seen.add(ci.fq)
        for b in ci.bases:
            try:
                r = self.resolve(ci.module.name, ast.unparse(b))
            except Exception:
                r = None
            if isinstance(r, ClassInfo) and r.fq not in _seen:
                out += self.mro_names(r, _seen)
        return out

    def subclasses_of(self, base_fq: str) -> List[ClassInfo]:
        out = []
        for m in self.all_modules():
            for ci in m.classes.values():
                if base_fq in self.mro_names(ci) and ci.fq != base_fq:
                    out.append(ci)
        return out

    def all_functions(self) -> Iterator[FunctionInfo]:
        for m in self.all_modules():
            yield from m.functions.values()

    def digest(self) -> str:
        h = hashlib.sha1()
        for k in sorted(self.consulted):
            h.update(k.encode())
            h.update(self.consulted[k].encode())
        return h.hexdigest()[:16]
