"""Abstract interpreter over function bodies: access paths, dependence sets, storage (view)
state and monomial shapes.  It walks statements in order, joins branches, unrolls loops over
literal element lists, and analyses resolved callees inline up to a depth bound.

Nothing is executed; no path condition is built; values are joined at merges.
"""
from __future__ import annotations

import ast
from fractions import Fraction
from typing import Any, Callable, Dict, FrozenSet, List, Optional, Set, Tuple

from . import shape as sh
from .astutil import dotted, fold, NOFOLD, norm
from .loader import AnalysisError, ClassInfo, FunctionInfo, Repo
from .schema import Schema

E: FrozenSet[str] = frozenset()

DF_ATTRS_KEEP = {"values", "T", "real", "imag", "array", "flat"}
DF_NONCOL = {"loc", "iloc", "at", "iat", "index", "columns", "values", "empty", "shape", "dtypes", "size",
             "T", "str", "dt", "real", "imag", "name", "dtype", "ndim", "array", "flat"}
SHAPE_PRESERVING_METHODS = {"astype", "copy", "to_numpy", "flatten", "ravel", "reshape", "squeeze", "conj",
                            "conjugate", "sum", "max", "min", "mean", "fillna", "reset_index", "toarray",
                            "tolist", "round", "clip", "transpose", "item", "dropna", "sort_values", "sort_index",
                            "drop_duplicates", "ffill", "bfill", "todense", "tocsr", "tocsc", "cumsum", "head",
                            "to_list", "unique", "abs", "get", "nansum", "nanmax", "nanmin", "view", "rename",
                            "set_index", "reindex", "infer_objects", "convert_dtypes", "__array__"}
FRESH_METHODS = {"astype", "copy", "fillna", "flatten", "sum", "max", "min", "mean", "tolist", "round", "clip",
                 "dropna", "sort_values", "drop_duplicates", "unique", "abs", "cumsum", "to_list", "toarray",
                 "reset_index", "rename", "set_index", "reindex", "nansum", "isin", "isnull", "isna", "notnull",
                 "notna", "any", "all", "nonzero", "argsort", "conj", "conjugate", "infer_objects",
                 "convert_dtypes", "sort_index", "head", "merge", "join", "query", "item"}
NP_PRESERVE = {"array", "asarray", "abs", "absolute", "real", "imag", "conj", "conjugate", "hstack", "vstack",
               "concatenate", "r_", "c_", "sum", "nansum", "maximum", "minimum", "fmax", "fmin", "max", "min",
               "nanmax", "nanmin", "amax", "amin", "copy", "squeeze", "ravel", "flatten", "transpose", "nan_to_num",
               "where", "select", "round", "around", "float64", "float32", "complex128", "int64", "atleast_1d",
               "ascontiguousarray", "negative", "positive", "mean", "median", "repeat", "tile", "append", "insert",
               "delete", "clip", "diag", "diagonal", "sort", "unique", "column_stack", "stack", "cumsum", "flip",
               "asmatrix", "asanyarray", "broadcast_to", "full_like_values", "take", "compress", "extract",
               "choose", "reshape", "resize", "roll", "trapz", "float_", "complex_", "isreal_values"}
NP_MASK = {"isnan", "isin", "in1d", "isfinite", "isinf", "isclose", "any", "all", "logical_and", "logical_or",
           "logical_not", "logical_xor", "isreal", "iscomplex", "equal", "not_equal", "less", "greater",
           "less_equal", "greater_equal", "allclose", "array_equal", "nonzero", "flatnonzero", "argwhere",
           "argsort", "argmax", "argmin", "searchsorted", "lexsort", "sign", "count_nonzero", "intersect1d",
           "setdiff1d", "union1d", "arange", "digitize", "bincount"}
NP_ZERO = {"zeros", "zeros_like", "empty", "empty_like"}
NP_ONE = {"ones", "ones_like", "full", "full_like", "eye", "identity"}


EXTRA_TABLES = {"trafo_characteristic_table", "shunt_characteristic_table", "characteristic",
                "q_capability_curve_table", "q_capability_characteristic"}


class AV:
    """Abstract value."""
    __slots__ = ("deps", "kind", "data", "shape", "via", "view", "origin")

    def __init__(self, deps=E, kind="val", data=None, shape=sh.TOP, via=E, view=None, origin=None):
        self.deps = deps
        self.kind = kind
        self.data = data
        self.shape = shape
        self.via = via
        self.view = view  # None (fresh) | frozenset of storage paths this value may alias
        self.origin = origin  # name of the local variable this value is the same object as

    def with_(self, **kw):
        a = AV(self.deps, self.kind, self.data, self.shape, self.via, self.view, self.origin)
        for k, v in kw.items():
            setattr(a, k, v)
        return a

    @property
    def is_const(self):
        return self.kind == "const"

    def __repr__(self):
        return f"AV({self.kind},{self.data if self.kind != 'val' else ''},deps={sorted(self.deps)[:6]},shape={sh.describe(self.shape)[:80]})"


def const(v) -> AV:
    if isinstance(v, (int, float)) and not isinstance(v, bool):
        return AV(E, "const", v, sh.literal(v))
    if isinstance(v, complex):
        return AV(E, "const", v, sh.literal(v))
    return AV(E, "const", v, sh.S(sh.PURE) if isinstance(v, (bool, str)) or v is None else sh.TOP)


BOTTOM = AV(E, "bottom", None, sh.ZERO)
UNKNOWN = AV(E, "val", None, sh.TOP)


def join_view(a, b):
    if a is None:
        return b
    if b is None:
        return a
    return a | b


def join(a: AV, b: AV) -> AV:
    if a is b:
        return a
    if a.kind == "bottom":
        return b
    if b.kind == "bottom":
        return a
    if "alist" in (a.kind, b.kind) and a.kind in ("alist", "list") and b.kind in ("alist", "list"):
        ea = a.data if a.kind == "alist" else join_all(list(a.data))
        eb = b.data if b.kind == "alist" else join_all(list(b.data))
        return AV(a.deps | b.deps, "alist", join(ea, eb), sh.TOP, a.via | b.via)
    sa = _as_strset(a)
    sb = _as_strset(b)
    if sa is not None and sb is not None and (a.kind == "strset" or b.kind == "strset" or a.data != b.data):
        return AV(a.deps | b.deps, "strset", sa | sb)
    if a.kind == b.kind and a.kind not in ("val",):
        if a.kind == "const":
            if a.data == b.data and type(a.data) is type(b.data):
                return a
            shp = sh.add(a.shape, b.shape)
            return AV(a.deps | b.deps, "val", None, shp, a.via | b.via)
        if a.kind == "table" and a.data[0] == b.data[0]:
            return AV(a.deps | b.deps, "table", (a.data[0], a.data[1] | b.data[1]), sh.TOP, a.via | b.via,
                      join_view(a.view, b.view))
        if a.kind in ("tuple", "list") and len(a.data) == len(b.data):
            return AV(a.deps | b.deps, a.kind, [join(x, y) for x, y in zip(a.data, b.data)], sh.TOP, a.via | b.via)
        if a.kind == "list" and all(_as_strset(x) is not None for x in list(a.data) + list(b.data)) and (a.data or b.data):
            # lists of names of different length: one abstract element ranging over all names
            names = frozenset().union(*[_as_strset(x) for x in list(a.data) + list(b.data)])
            return AV(a.deps | b.deps, "alist", AV(E, "strset", names), sh.TOP, a.via | b.via)
        if a.data == b.data:
            return AV(a.deps | b.deps, a.kind, a.data, sh.add(a.shape, b.shape) if (a.shape is not sh.TOP and b.shape is not sh.TOP) else sh.TOP,
                      a.via | b.via, join_view(a.view, b.view))
    shp = sh.add(a.shape, b.shape)
    # None constants do not destroy shapes (x = None ... x = value)
    if a.kind == "const" and a.data is None:
        shp = b.shape
    if b.kind == "const" and b.data is None:
        shp = a.shape
    keep = None
    for x, y in ((a, b), (b, a)):
        if x.kind == "const" and x.data is None and y.kind not in ("val", "const"):
            keep = y
    if keep is not None:
        return keep.with_(deps=a.deps | b.deps)
    return AV(a.deps | b.deps, "val", None, shp, a.via | b.via, join_view(a.view, b.view))


def _as_strset(a: AV):
    if a.kind == "strset":
        return a.data
    if a.kind == "const" and isinstance(a.data, str):
        return frozenset([a.data])
    return None


def join_all(vals: List[AV]) -> AV:
    out = BOTTOM
    for v in vals:
        out = join(out, v)
    return out


def guard_texts(guards) -> List[str]:
    out = []
    for g in guards:
        if isinstance(g, str):
            out.append(g)
        else:
            t = norm(g[0], 160)
            out.append("not(" + t + ")" if g[1] else t)
    return out


class Store:
    """A write to net storage / a ppc matrix / a result table recorded during interpretation."""
    __slots__ = ("path", "value", "index", "ctrl", "fn", "node", "stack", "op", "through_view", "_guards")

    @property
    def guards(self):
        return guard_texts(self._guards)

    def __init__(self, path, value, index, ctrl, fn, node, stack, op=None, through_view=False, guards=()):
        self.path = path  # e.g. 'ppc.bus.PD', 'net.res_line.pl_mw', 'net.trafo.vk_percent', 'net.gen.@rows'
        self.value = value
        self.index = index
        self.ctrl = ctrl
        self.fn = fn
        self.node = node
        self.stack = stack
        self.op = op
        self.through_view = through_view
        self._guards = guards

    def __repr__(self):
        return f"Store({self.path} <- {sorted(self.value.deps)[:8]} @ {self.fn.fq if self.fn else ''})"


class CallEvent:
    __slots__ = ("callee", "args", "kwargs", "fn", "node", "stack", "ctrl", "_guards")

    def __init__(self, callee, args, kwargs, fn, node, stack, ctrl, guards):
        self.callee = callee
        self.args = args
        self.kwargs = kwargs
        self.fn = fn
        self.node = node
        self.stack = stack
        self.ctrl = ctrl
        self._guards = guards

    @property
    def guards(self):
        return guard_texts(self._guards)


class Frame:
    def __init__(self, fn: Optional[FunctionInfo], env: Dict[str, AV], depth: int):
        self.fn = fn
        self.env = env
        self.ret: AV = BOTTOM
        self.depth = depth
        self.ctrl: List[FrozenSet[str]] = []
        self.guards: List[str] = []

    def sticky_ctrl(self, deps):
        """control dependence that lasts until the end of the enclosing loop body / function
        (code after 'if c: return/continue')."""
        self.ctrl.append(deps)

    def push_sticky(self):
        return len(self.ctrl)

    def pop_sticky(self, mark):
        del self.ctrl[mark:]

    def ctrl_deps(self) -> FrozenSet[str]:
        out = set()
        for c in self.ctrl:
            out |= c
        return frozenset(out)


class Interp:
    """One analysis session.  `net_params` names the parameters that denote a pandapower net."""

    def __init__(self, repo: Repo, schema: Optional[Schema] = None, max_depth: int = 4,
                 net_names=("net",), ppc_names=("ppc", "ppci"), summaries: Optional[Dict[str, Callable]] = None,
                 on_call: Optional[Callable] = None, track_calls: bool = False, unroll_limit: int = 64):
        self.repo = repo
        self.schema = schema or Schema(repo)
        self.max_depth = max_depth
        self.net_names = set(net_names)
        self.ppc_names = set(ppc_names)
        self.stores: List[Store] = []
        self.calls: List[CallEvent] = []
        self.stack: List[str] = []
        self.summaries = dict(DEFAULT_SUMMARIES)
        if summaries:
            self.summaries.update(summaries)
        self.on_call = on_call
        self.track_calls = track_calls
        self.unroll_limit = unroll_limit
        self.unresolved_calls = 0
        self.resolved_calls = 0
        self.no_inline: Set[str] = set()
        self.options: Dict[str, AV] = {}      # preset values of net._options[key]
        self.heap: Dict[str, AV] = {}         # store-to-load forwarding for res_* / internal columns
        self.forward_heap = True
        self.record_local_stores = False
        self.bind_defaults_at_entry = False
        self.assume_schema_columns = False   # "col" in net.<table> is True for schema columns
        self.instantiate_objects = True      # run __init__ and methods of repository classes
        self.keyreads: List[Tuple[str, str, str, Any]] = []   # (tracked mapping, key, function, node)
        self.ext_calls: List[Any] = []
        self.track_external: Set[str] = {"DataFrame"}
        self.memo_calls = False              # coarse memoisation of callee analyses (effect sweeps only)
        self._memo: Dict[Any, Any] = {}
        self._idxnames: Dict[str, Dict[int, str]] = {}

    IDX_MODULES = {"bus": "pandapower.pypower.idx_bus", "branch": "pandapower.pypower.idx_brch",
                   "gen": "pandapower.pypower.idx_gen", "bus_dc": "pandapower.pypower.idx_bus_dc",
                   "branch_dc": "pandapower.pypower.idx_brch_dc"}
    IDX_NOT_COLS = {"PQ", "PV", "REF", "NONE", "DC_REF", "DC_NONE", "DC_P", "DC_B2B"}

    def idx_name(self, matrix: str, c: str) -> str:
        """Map a literal integer column index to the idx_* constant name of that matrix."""
        if not c.lstrip("-").isdigit():
            return c
        tab = self._idxnames.get(matrix)
        if tab is None:
            tab = {}
            mn = self.IDX_MODULES.get(matrix)
            if mn and self.repo.has_module(mn):
                m = self.repo.module(mn)
                for name, node in m.assigns.items():
                    v = fold(node)
                    if isinstance(v, int) and not isinstance(v, bool) and name not in self.IDX_NOT_COLS:
                        tab.setdefault(v, []).append(name)
            self._idxnames[matrix] = tab
        names = tab.get(int(c), [])
        return names[0] if len(names) == 1 else c

    # ------------------------------------------------------------------ entry points
    def net_av(self, tag="net") -> AV:
        return AV(E, "net", tag, sh.TOP)

    def ppc_av(self, tag="ppc") -> AV:
        return AV(E, "ppc", tag, sh.TOP)

    def default_arg(self, name: str) -> AV:
        if name in self.net_names:
            return self.net_av(name)
        if name in self.ppc_names:
            return self.ppc_av("ppc")
        return AV(frozenset([f"param.{name}"]), "val", None, sh.S(sh.Mono(facs=[f"param.{name}"])))

    def run_function(self, fi: FunctionInfo, args: Optional[Dict[str, AV]] = None, depth: int = 0) -> Frame:
        env: Dict[str, AV] = {}
        a = fi.node.args
        params = a.posonlyargs + a.args + a.kwonlyargs
        defaults = [None] * (len(a.posonlyargs + a.args) - len(a.defaults)) + list(a.defaults) + list(a.kw_defaults)
        fr = Frame(fi, env, depth)
        for p, d in zip(params, defaults):
            if args and p.arg in args:
                env[p.arg] = args[p.arg]
            elif d is not None and (args is not None and depth > 0):
                env[p.arg] = self.eval(d, fr)
            elif d is not None and depth == 0 and self.bind_defaults_at_entry and fold(d) is not NOFOLD:
                env[p.arg] = self.eval(d, fr)
            else:
                env[p.arg] = self.default_arg(p.arg)
        if a.vararg:
            env[a.vararg.arg] = (args or {}).get(a.vararg.arg, AV(frozenset([f"param.{a.vararg.arg}"]), "val"))
        if a.kwarg:
            env[a.kwarg.arg] = (args or {}).get(a.kwarg.arg, AV(frozenset([f"param.{a.kwarg.arg}"]), "val"))
        self.stack.append(fi.fq)
        try:
            self.exec_body(fi.node.body, fr)
        finally:
            self.stack.pop()
        return fr

    # ------------------------------------------------------------------ statements
    def exec_body(self, body, fr: Frame):
        """Returns None, or 'ret' / 'loop' when the block definitely ends in return/raise resp.
        continue/break (the rest of the block is not executed)."""
        for st in body:
            t = self.exec_stmt(st, fr)
            if t:
                return t
        return None

    def exec_stmt(self, st, fr: Frame):
        m = getattr(self, "s_" + type(st).__name__, None)
        if m is not None:
            return m(st, fr)
        for ch in ast.iter_child_nodes(st):
            if isinstance(ch, ast.expr):
                self.eval(ch, fr)
        return None

    def s_Continue(self, st, fr):
        return "loop"

    def s_Break(self, st, fr):
        return "loop"

    def s_Expr(self, st, fr):
        self.eval(st.value, fr)

    def s_Pass(self, st, fr):
        pass

    def s_Import(self, st, fr):
        pass

    def s_ImportFrom(self, st, fr):
        pass

    def s_Global(self, st, fr):
        pass

    def s_Nonlocal(self, st, fr):
        pass

    def s_FunctionDef(self, st, fr):
        fi = None
        if fr.fn is not None:
            qn = f"{fr.fn.qualname}.<locals>.{st.name}"
            fi = fr.fn.module.functions.get(qn)
        if fi is not None:
            fr.env[st.name] = AV(E, "func", fi)
        else:
            fr.env[st.name] = UNKNOWN

    s_AsyncFunctionDef = s_FunctionDef

    def s_ClassDef(self, st, fr):
        fr.env[st.name] = UNKNOWN

    def s_Return(self, st, fr):
        if st.value is not None:
            v = self.eval(st.value, fr)
            c = fr.ctrl_deps()
            if c and v.kind in ("val", "const"):
                v = v.with_(deps=v.deps | c) if v.kind == "val" else v
            fr.ret = join(fr.ret, v)
        else:
            fr.ret = join(fr.ret, const(None))
        return "ret"

    def s_Raise(self, st, fr):
        if st.exc is not None:
            self.eval(st.exc, fr)
        return "ret"

    def s_Assert(self, st, fr):
        self.eval(st.test, fr)

    def s_Delete(self, st, fr):
        for t in st.targets:
            if isinstance(t, ast.Subscript):
                base = self.eval(t.value, fr)
                idx = self.eval(t.slice, fr)
                self._store_into(base, t, idx, UNKNOWN, fr, st, op="del")
            elif isinstance(t, ast.Name):
                fr.env.pop(t.id, None)

    def s_Assign(self, st, fr):
        v = self.eval(st.value, fr)
        for t in st.targets:
            self.assign(t, v, fr, st)

    def s_AnnAssign(self, st, fr):
        if st.value is not None:
            v = self.eval(st.value, fr)
            self.assign(st.target, v, fr, st)

    def s_AugAssign(self, st, fr):
        cur = self.eval(_load(st.target), fr)
        rhs = self.eval(st.value, fr)
        v = self.binop(st.op, cur, rhs)
        if isinstance(st.target, ast.Name):
            # in-place on arrays: storage is kept
            if cur.view:
                self._record_view_write(cur, v, fr, st, op="aug")
                v = v.with_(view=cur.view)
            fr.env[st.target.id] = v
        else:
            self.assign(st.target, v, fr, st, op="aug")

    def s_If(self, st, fr):
        tv = self.eval(st.test, fr)
        b = truth(tv)
        if b is True:
            return self.exec_body(st.body, fr)
        if b is False:
            return self.exec_body(st.orelse, fr)
        env0 = dict(fr.env)
        mark = len(fr.ctrl)
        fr.ctrl.append(tv.deps)
        fr.guards.append((st.test, False))
        term1 = self.exec_body(st.body, fr)
        env1 = fr.env
        fr.guards.pop()
        del fr.ctrl[mark + 1:]
        fr.env = dict(env0)
        fr.guards.append((st.test, True))
        term2 = self.exec_body(st.orelse, fr)
        fr.guards.pop()
        env2 = fr.env
        del fr.ctrl[mark:]
        if term1 and not term2:
            fr.env = env2
            # the rest of the block runs only when the test was false
            fr.sticky_ctrl(tv.deps)
        elif term2 and not term1:
            fr.env = env1
            fr.sticky_ctrl(tv.deps)
        else:
            fr.env = join_env(env1, env2)
        if term1 and term2:
            return "ret" if (term1 == "ret" and term2 == "ret") else "loop"
        return None

    def s_For(self, st, fr):
        it = self.eval(st.iter, fr)
        items = iter_items(it)
        if items is not None and len(items) <= self.unroll_limit:
            for item in items:
                self.assign(st.target, item, fr, st, loopvar=True)
                mark = fr.push_sticky()
                t = self.exec_body(st.body, fr)
                fr.pop_sticky(mark)
                if t == "ret":
                    return "ret"
            return self.exec_body(st.orelse, fr)
        elem = element_of(it)
        env0 = dict(fr.env)
        for _ in range(2):
            self.assign(st.target, elem, fr, st, loopvar=True)
            fr.ctrl.append(it.deps)
            mark = fr.push_sticky()
            self.exec_body(st.body, fr)
            fr.pop_sticky(mark)
            fr.ctrl.pop()
            fr.env = join_env(env0, fr.env)
        return self.exec_body(st.orelse, fr)

    s_AsyncFor = s_For

    def s_While(self, st, fr):
        env0 = dict(fr.env)
        for _ in range(2):
            tv = self.eval(st.test, fr)
            fr.ctrl.append(tv.deps)
            mark = fr.push_sticky()
            self.exec_body(st.body, fr)
            fr.pop_sticky(mark)
            fr.ctrl.pop()
            fr.env = join_env(env0, fr.env)
        self.exec_body(st.orelse, fr)
        return None

    def s_With(self, st, fr):
        for it in st.items:
            v = self.eval(it.context_expr, fr)
            if it.optional_vars is not None:
                self.assign(it.optional_vars, v, fr, st)
        return self.exec_body(st.body, fr)

    s_AsyncWith = s_With

    def s_Try(self, st, fr):
        env0 = dict(fr.env)
        tb = self.exec_body(st.body, fr)
        env_body = fr.env
        envs = []
        terms = []
        for h in st.handlers:
            fr.env = join_env(env0, env_body)
            if h.name:
                fr.env[h.name] = UNKNOWN
            th = self.exec_body(h.body, fr)
            if not th:
                envs.append(fr.env)
            terms.append(th)
        fr.env = dict(env_body)
        if not tb:
            tb = self.exec_body(st.orelse, fr)
        if not tb:
            envs.insert(0, fr.env)
        if envs:
            out = envs[0]
            for e in envs[1:]:
                out = join_env(out, e)
            fr.env = out
        tf = self.exec_body(st.finalbody, fr)
        if tf:
            return tf
        if tb and all(terms) and not envs:
            return "ret" if tb == "ret" and all(t == "ret" for t in terms) else "loop"
        return None

    s_TryStar = s_Try

    def s_Match(self, st, fr):
        self.eval(st.subject, fr)
        env0 = dict(fr.env)
        outs = []
        for c in st.cases:
            fr.env = dict(env0)
            self.exec_body(c.body, fr)
            outs.append(fr.env)
        out = env0
        for e in outs:
            out = join_env(out, e)
        fr.env = out

    # ------------------------------------------------------------------ assignment / stores
    def assign(self, target, v: AV, fr: Frame, st, op=None, loopvar=False):
        if isinstance(target, ast.Name):
            c = fr.ctrl_deps()
            if c and v.kind == "val" and not loopvar:
                v = v.with_(deps=v.deps | c)
            fr.env[target.id] = v
        elif isinstance(target, (ast.Tuple, ast.List)):
            n = len(target.elts)
            if v.kind in ("tuple", "list") and len(v.data) == n and not any(isinstance(e, ast.Starred) for e in target.elts):
                for e, x in zip(target.elts, v.data):
                    self.assign(e, x, fr, st, op, loopvar)
            else:
                ev = element_of(v)
                for e in target.elts:
                    if isinstance(e, ast.Starred):
                        e = e.value
                    self.assign(e, ev, fr, st, op, loopvar)
        elif isinstance(target, ast.Subscript):
            base = self.eval(target.value, fr)
            idx = self.eval(target.slice, fr)
            self._store_into(base, target, idx, v, fr, st, op)
        elif isinstance(target, ast.Attribute):
            base = self.eval(target.value, fr)
            self._store_attr(base, target, v, fr, st, op)
        elif isinstance(target, ast.Starred):
            self.assign(target.value, v, fr, st, op, loopvar)

    def _mkstore(self, path, v, idx, fr, st, op=None, through_view=False):
        s = Store(path, v, idx, fr.ctrl_deps(), fr.fn, st, tuple(self.stack), op, through_view, tuple(fr.guards))
        self.stores.append(s)
        if self.forward_heap and path.count(".") == 2 and (".res_" in path or "._" in path):
            vv = v if v.kind != "colormeth" else v.with_(kind="val", data=None)
            if vv.kind in ("val", "const"):
                old = self.heap.get(path)
                if op in ("aug",) and old is not None:
                    # the augmented value already contains the old one (binop of current and rhs)
                    self.heap[path] = vv
                elif old is not None and (fr.ctrl or (idx is not None and idx.kind not in ("const", "slice") and not _full_slice(idx))):
                    self.heap[path] = join(old, vv)
                else:
                    self.heap[path] = vv
        return s

    def _record_view_write(self, base: AV, v: AV, fr, st, op=None, idx: AV = None):
        for p in sorted(base.view or ()):
            self._mkstore(p, v, idx or UNKNOWN, fr, st, op, through_view=True)

    def _store_attr(self, base: AV, target: ast.Attribute, v: AV, fr, st, op):
        attr = target.attr
        if base.kind == "net":
            self._mkstore(f"{base.data}.{attr}", v, UNKNOWN, fr, st, op)
        elif base.kind == "table":
            tag, names = base.data
            if base.view is None:
                tag = tag + "#tablecopy"
            for t in sorted(names):
                self._mkstore(f"{tag}.{t}.{attr}", v, UNKNOWN, fr, st, op)
        elif base.kind == "obj":
            base.data[attr] = v
        elif base.kind == "val" and base.view:
            # series.values = ... / arr.flat = ...
            self._record_view_write(base, v, fr, st, op)

    def _store_into(self, base: AV, target: ast.Subscript, idx: AV, v: AV, fr, st, op):
        k = base.kind
        if k == "net":
            key = idx.data if idx.is_const else None
            if isinstance(key, str):
                self._mkstore(f"{base.data}.{key}", v, idx, fr, st, op)
                fr.env.setdefault("__netkeys__", AV(E, "dict", {})).data[(base.data, key)] = v
            else:
                pat = prefix_pattern(target.slice, fr, self)
                self._mkstore(f"{base.data}.{pat}", v, idx, fr, st, op)
        elif k == "table":
            tag, names = base.data
            if base.view is None:
                tag = tag + "#tablecopy"   # a filtered / copied frame, not the net's table
            cols = col_keys(idx)
            for t in sorted(names):
                if cols:
                    for c in cols:
                        self._mkstore(f"{tag}.{t}.{c}", v, idx, fr, st, op, through_view=bool(base.view and not _is_direct_table(base)))
                else:
                    self._mkstore(f"{tag}.{t}.*", v, idx, fr, st, op)
        elif k == "tableloc":
            tag, names, how = base.data
            if base.view is None:
                tag = tag + "#tablecopy"
            cols = loc_cols(idx)
            for t in sorted(names):
                for c in (cols or ["*"]):
                    self._mkstore(f"{tag}.{t}.{c}", v, idx, fr, st, op)
        elif k == "ppc":
            key = idx.data if idx.is_const else None
            if isinstance(key, str):
                self._mkstore(f"ppc.{key}.@matrix", v, idx, fr, st, op)
                d = fr.env.setdefault("__ppckeys__", AV(E, "dict", {}))
                d.data[key] = v
            else:
                self._mkstore("ppc.?", v, idx, fr, st, op)
        elif k == "matrix":
            cols = matrix_cols(idx)
            if cols:
                cols = [self.idx_name(base.data, c) for c in cols]
            for c in (cols or ["*"]):
                self._mkstore(f"ppc.{base.data}.{c}", v, idx, fr, st, op)
        elif k in ("dict", "obj"):
            if idx.is_const and isinstance(base.data, dict):
                try:
                    base.data[idx.data] = v
                except TypeError:
                    pass
        elif k == "options":
            key = idx.data if idx.is_const else "?"
            self._mkstore(f"{base.data}._options.{key}", v, idx, fr, st, op)
        elif k in ("lookups", "is_elements"):
            key = idx.data if idx.is_const else "?"
            self._mkstore(f"{base.data}.{'_pd2ppc_lookups' if k == 'lookups' else '_is_elements'}.{key}", v, idx, fr, st, op)
        elif k in ("val", "list", "tuple"):
            # weak update of a local array; a write through a view reaches the aliased storage
            if base.view:
                self._record_view_write(base, v, fr, st, op, idx)
            if isinstance(target.value, ast.Subscript) and base.kind == "val":
                # element of a local container: d[k][mask] = v  ->  weak update of d[k]
                cont = self.eval(target.value.value, fr)
                key = self.eval(target.value.slice, fr)
                if cont.kind == "dict" and key.is_const and isinstance(cont.data, dict):
                    try:
                        cont.data[key.data] = AV(base.deps | deps_of(v) | idx.deps | fr.ctrl_deps(), "val", None,
                                                 sh.add(base.shape, shape_of(v)), base.via | v.via, base.view)
                    except TypeError:
                        pass
            if isinstance(target.value, ast.Name) and target.value.id in fr.env:
                old = fr.env[target.value.id]
                if self.record_local_stores:
                    lc = None
                    if idx.kind == "tuple" and len(idx.data) == 2:
                        c = idx.data[1]
                        lc = c.data[0] if c.kind == "colconst" else (str(c.data) if c.is_const else None)
                    self._mkstore(f"local.{target.value.id}.{lc if lc is not None else '*'}", v, idx, fr, st, op)
                if old.kind == "val":
                    c = fr.ctrl_deps()
                    new = AV(old.deps | deps_of(v) | idx.deps | c, "val", None,
                             sh.add(old.shape, shape_of(v)), old.via | v.via, old.view, old.origin)
                    fr.env[target.value.id] = new
                    if old.origin and old.origin != target.value.id and old.origin in fr.env \
                            and fr.env[old.origin].kind == "val":
                        o2 = fr.env[old.origin]
                        fr.env[old.origin] = AV(o2.deps | new.deps, "val", None, sh.add(o2.shape, shape_of(v)),
                                                o2.via | v.via, o2.view, o2.origin)

    # ------------------------------------------------------------------ expressions
    def eval(self, node, fr: Frame) -> AV:
        m = getattr(self, "e_" + type(node).__name__, None)
        if m is None:
            deps = set()
            for ch in ast.iter_child_nodes(node):
                if isinstance(ch, ast.expr):
                    deps |= self.eval(ch, fr).deps
            return AV(frozenset(deps))
        return m(node, fr)

    def e_Constant(self, node, fr):
        return const(node.value)

    def e_Name(self, node, fr):
        n = node.id
        if n in fr.env:
            v = fr.env[n]
            if v.kind == "val" and v.origin is None:
                v = v.with_(origin=n)
            return v
        return self.global_name(n, fr)

    def global_name(self, n: str, fr: Frame) -> AV:
        if n in ("True", "False", "None"):
            return const({"True": True, "False": False, "None": None}[n])
        if fr.fn is None:
            return UNKNOWN
        # enclosing function frames are not modelled: closures see param atoms
        r = self.repo.resolve(fr.fn.module.name, n)
        return self._resolved_to_av(r, n)

    def _fold_module_const(self, mod, node, depth=0):
        if depth > 6:
            return NOFOLD
        env = {}
        for nm in {x.id for x in ast.walk(node) if isinstance(x, ast.Name)}:
            r = self.repo.resolve(mod.name, nm)
            if isinstance(r, tuple) and r[0] == "const":
                v = fold(r[1])
                if v is NOFOLD:
                    v = self._fold_module_const(r[2], r[1], depth + 1)
                if v is not NOFOLD:
                    env[nm] = v
        return fold(node, env)

    def _resolved_to_av(self, r, n) -> AV:
        if isinstance(r, FunctionInfo):
            return AV(E, "func", r)
        if isinstance(r, ClassInfo):
            return AV(E, "class", r)
        if isinstance(r, tuple):
            if r[0] == "const":
                node, mod = r[1], r[2]
                v = fold(node)
                if v is NOFOLD and ".idx_" in mod.name:
                    # idx constants defined relative to another idx module (R_EQUIV = start + 0)
                    v = self._fold_module_const(mod, node)
                if v is not NOFOLD:
                    a = const(v) if not isinstance(v, (list, dict, set, tuple)) else AV(E, "const", v, sh.TOP)
                    if mod.name.startswith("pandapower.pypower.idx_") or mod.name.endswith("idx_bus_sc") or ".idx_" in mod.name:
                        return AV(E, "colconst", (n, v), sh.S(sh.PURE))
                    return a
                if isinstance(node, ast.Call) and dotted(node.func) in ("np.sqrt", "sqrt", "math.sqrt") and node.args:
                    return AV(E, "const", NOFOLD, sh.S(sh.PURE))
                if isinstance(node, ast.Call) and len(node.args) == 1 and isinstance(node.args[0], ast.Name) \
                        and node.args[0].id in mod.functions:
                    # name = decorator(...)(function): the wrapped function
                    return AV(E, "func", mod.functions[node.args[0].id])
                return AV(frozenset([f"global.{mod.name}.{n}"]), "val", None, sh.TOP)
            if r[0] == "module":
                return AV(E, "module", r[1])
            if r[0] == "external":
                return ext_value(r[1])
        return AV(E, "ext", n)

    def e_Attribute(self, node, fr):
        base = self.eval(node.value, fr)
        return self.getattr_av(base, node.attr, fr, node)

    def getattr_av(self, base: AV, attr: str, fr, node=None) -> AV:
        k = base.kind
        if k == "colormeth":
            # tab.col.<attr>: the attribute access was a column
            base = base.with_(kind="val", data=None)
            k = "val"
        if k == "net":
            return self.net_member(base, attr)
        if k == "table":
            tag, names = base.data
            if attr in ("loc", "iloc", "at", "iat"):
                return AV(base.deps, "tableloc", (tag, names, attr), sh.TOP, base.via, base.view)
            if attr == "index":
                return AV(base.deps | frozenset(f"{tag}.{t}.@index" for t in names), "val", None,
                          sh.S(sh.PURE), view=frozenset(f"{tag}.{t}.@index" for t in names))
            if attr in ("columns", "dtypes"):
                return AV(base.deps | frozenset(f"{tag}.{t}.@columns" for t in names), "columns",
                          (tag, names, base.view is not None), sh.TOP)
            if attr in ("empty", "shape", "size"):
                return AV(base.deps | frozenset(f"{tag}.{t}.@len" for t in names), "val", None, sh.S(sh.PURE))
            if attr in ("values", "T"):
                return AV(base.deps | frozenset(f"{tag}.{t}.*" for t in names), "val", None, sh.TOP, base.via, base.view)
            if attr in DF_NONCOL or attr.startswith("__"):
                return AV(base.deps, "val")
            # method or column: decided at call time; keep a bound-method marker
            return self.table_col(base, [attr], maybe_method=attr)
        if k == "row":
            tab = base.data
            tag, names = tab.data
            if attr in ("Index", "name"):
                return AV(frozenset(f"{tag}.{t}.@index" for t in names), "val", None, sh.S(sh.PURE))
            if attr.startswith("__") or attr in ("index", "values", "items", "keys", "to_dict", "copy"):
                return AV(base.deps, "val")
            c = self.table_col(tab, [attr])
            return c
        if k == "module":
            full = base.data + "." + attr
            if self.repo.has_module(full):
                return AV(E, "module", full)
            r = self.repo.resolve(base.data, attr)
            if r is not None:
                return self._resolved_to_av(r, attr)
            return AV(E, "ext", full)
        if k == "ext":
            return ext_value(f"{base.data}.{attr}")
        if k == "obj":
            if attr == "__class__":
                ci0 = base.data.get("__class__")
                return AV(E, "class", ci0) if isinstance(ci0, ClassInfo) else UNKNOWN
            if attr in base.data and isinstance(base.data[attr], AV):
                return base.data[attr]
            ci = base.data.get("__class__")
            if isinstance(ci, ClassInfo):
                m = self.repo.resolve_method(ci, attr)
                if isinstance(m, FunctionInfo):
                    if any(isinstance(d, ast.Name) and d.id == "property" for d in m.node.decorator_list):
                        return self.call_function(m, [base], {}, fr, node)
                    if _is_static(m):
                        return AV(E, "func", m)
                    return AV(E, "bmeth", (base, m))
            return AV(base.deps, "val")
        if k == "class":
            r = self.repo.resolve_method(base.data, attr)
            if r is not None:
                return AV(E, "func", r)
            return UNKNOWN
        if k == "const":
            return AV(E, "cmeth", (base.data, attr))
        if k in ("options", "lookups", "is_elements", "dict", "ppc", "matrix", "tableloc", "tmap"):
            return AV(base.deps, "bound", (base, attr))
        # generic value
        if attr == "real":
            return AV(base.deps, "val", None, sh.real_part(base.shape), base.via, base.view)
        if attr == "imag":
            return AV(base.deps, "val", None, sh.imag_part(base.shape), base.via, base.view)
        if attr in DF_ATTRS_KEEP:
            return AV(base.deps, "val", None, base.shape, base.via, base.view)
        if attr in ("loc", "iloc", "at", "iat"):
            return AV(base.deps, "val", None, base.shape, base.via, base.view)
        if attr in ("index", "columns"):
            return AV(base.deps, "val", None, sh.S(sh.PURE), base.via)
        if attr in ("shape", "size", "empty", "dtype", "ndim"):
            return AV(base.deps, "val", None, sh.S(sh.PURE))
        return AV(base.deps, "bound", (base, attr), base.shape, base.via, base.view)

    def net_member(self, base: AV, name: str) -> AV:
        tag = base.data
        if name == "_options":
            return AV(E, "options", tag)
        if name == "_is_elements" or name == "_is_elements_final":
            return AV(E, "is_elements", tag)
        if name == "_pd2ppc_lookups":
            return AV(E, "lookups", tag)
        if name in ("_ppc", "_ppc0", "_ppc1", "_ppc2"):
            return AV(E, "ppc", name)
        if name == "sn_mva":
            return AV(frozenset([f"{tag}.sn_mva"]), "val", None, sh.base_power(f"{tag}.sn_mva"))
        if name == "f_hz":
            return AV(frozenset([f"{tag}.f_hz"]), "val", None, sh.S(sh.Mono({sh.SEC: -1}, facs=[f"{tag}.f_hz"])))
        if self.schema.is_table(name) or name.startswith("res_") or name in EXTRA_TABLES:
            return AV(E, "table", (tag, frozenset([name])), sh.TOP, E, frozenset([f"{tag}.{name}"]))
        if name in ("get", "keys", "items", "values", "update", "pop", "copy", "deepcopy", "__contains__", "clear"):
            return AV(E, "bound", (base, name))
        return AV(frozenset([f"{tag}.{name}"]), "val", None, sh.TOP)

    def table_col(self, base: AV, cols: List[str], maybe_method=None) -> AV:
        tag, names = base.data
        deps = set(base.deps)
        shp = sh.ZERO
        views = set()
        for t in names:
            for c in cols:
                atom = f"{tag}.{t}.{c}"
                deps.add(atom)
                hv = self.heap.get(atom) if self.forward_heap else None
                if hv is not None:
                    deps |= hv.deps
                    shp = sh.add(shp, hv.shape)
                else:
                    shp = sh.add(shp, sh.column_shape(c, atom))
                if base.view is not None:
                    views.add(atom)
        a = AV(frozenset(deps), "val", None, shp, base.via, frozenset(views) if views else None)
        if maybe_method:
            a.kind = "colormeth"
            a.data = (base, maybe_method)
        return a

    def e_Subscript(self, node, fr):
        base = self.eval(node.value, fr)
        idx = self.eval(node.slice, fr)
        return self.subscript(base, idx, fr, node)

    def subscript(self, base: AV, idx: AV, fr, node=None) -> AV:
        k = base.kind
        if k == "colormeth":
            base = base.with_(kind="val", data=None)
            k = "val"
        if k == "net":
            if idx.is_const and isinstance(idx.data, str):
                return self.net_member(base, idx.data)
            if idx.kind == "strset":
                return AV(idx.deps, "table", (base.data, frozenset(idx.data)), sh.TOP, E,
                          frozenset(f"{base.data}.{t}" for t in idx.data))
            if node is not None:
                pat = prefix_pattern(node.slice, fr, self)
                if pat != "?":
                    return AV(idx.deps, "table", (base.data, frozenset([pat])), sh.TOP, E, frozenset([f"{base.data}.{pat}"]))
            return AV(idx.deps | frozenset([f"{base.data}.?"]), "table", (base.data, frozenset(["?"])), sh.TOP, E, frozenset([f"{base.data}.?"]))
        if k == "table":
            cols = col_keys(idx)
            if cols:
                if not (idx.is_const and isinstance(idx.data, str)):
                    # df[[c1, c2]] is a new frame (copy), df[c] a Series sharing the frame's memory
                    return self.table_col(base.with_(view=None), cols)
                return self.table_col(base, cols)
            # row selection (mask / slice): same table, filtered -> copy semantics in pandas
            return AV(base.deps | idx.deps, "table", base.data, sh.TOP, base.via, None)
        if k == "row":
            cols = col_keys(idx)
            if cols:
                return self.table_col(base.data, cols)
            return AV(base.deps | idx.deps, "val")
        if k == "tableloc":
            tag, names, how = base.data
            cols = loc_cols(idx)
            tb = AV(base.deps | idx.deps, "table", (tag, names), sh.TOP, base.via, None)
            if cols:
                r = self.table_col(tb, cols)
                return r
            return tb
        if k == "ppc":
            if idx.is_const and isinstance(idx.data, str):
                key = idx.data
                if key == "baseMVA":
                    return AV(frozenset(["ppc.baseMVA"]), "val", None, sh.base_power("ppc.baseMVA"))
                if key in ("internal", "et", "success", "iterations", "version", "obj", "f"):
                    d = fr.env.get("__ppckeys__")
                    return AV(frozenset([f"ppc.{key}"]), "dict" if key == "internal" else "val", {} if key == "internal" else None)
                return AV(E, "matrix", key, sh.TOP, E, None)
            return AV(idx.deps, "matrix", "?")
        if k == "matrix":
            cols = matrix_cols(idx)
            if cols:
                cols = [self.idx_name(base.data, c) for c in cols]
            rowdeps = idx_row_deps(idx)
            deps = set(base.deps) | rowdeps
            shp = sh.ZERO
            rowtag = None
            if idx.kind == "tuple" and idx.data and idx.data[0].kind == "slice" and idx.data[0].data:
                rowtag = f"rows.{idx.data[0].data}"
            if cols:
                for c in cols:
                    atom = f"ppc.{base.data}.{c}"
                    deps.add(atom)
                    cs = sh.ppc_shape(base.data, c, atom)
                    if rowtag:
                        cs = sh.mul(cs, sh.S(sh.Mono(facs=[rowtag])))
                    shp = sh.add(shp, cs)
            else:
                deps.add(f"ppc.{base.data}.*")
                shp = sh.TOP
            return AV(frozenset(deps), "val", None, shp, base.via, None)
        if k == "tmap":
            key = idx.data if idx.is_const else "*"
            self.keyreads.append((base.data, key, fr.fn.fq if fr.fn else "", node))
            return AV(frozenset([f"{base.data}.{key}"]) | idx.deps, "val", None, sh.TOP)
        if k == "options":
            key = idx.data if idx.is_const else "?"
            if key in self.options:
                return self.options[key]
            return AV(frozenset([f"opt.{key}"]), "val", None, sh.S(sh.Mono(facs=[f"opt.{key}"])))
        if k == "is_elements":
            key = idx.data if idx.is_const else "?"
            return AV(frozenset([f"is.{key}"]) | idx.deps, "val", None, sh.S(sh.Mono(facs=[f"is.{key}"])))
        if k == "lookups":
            key = idx.data if idx.is_const else "?"
            return AV(frozenset([f"lookup.{key}"]) | idx.deps, "lookup", key, sh.S(sh.PURE))
        if k == "lookup":
            if idx.is_const:
                return AV(base.deps | frozenset([f"lookup.{base.data}.{idx.data}"]), "lookup", f"{base.data}.{idx.data}", sh.S(sh.PURE))
            return AV(base.deps | idx.deps, "val", None, sh.S(sh.PURE))
        if k in ("tuple", "list"):
            if idx.is_const and isinstance(idx.data, int) and -len(base.data) <= idx.data < len(base.data):
                return base.data[idx.data]
            return element_of(base).with_(deps=element_of(base).deps | idx.deps)
        if k == "dict":
            if idx.is_const and isinstance(base.data, dict) and idx.data in base.data:
                return base.data[idx.data]
            return AV(base.deps | idx.deps, "val")
        if k == "const":
            try:
                if idx.is_const:
                    return const(base.data[idx.data])
            except Exception:
                pass
            if isinstance(base.data, dict):
                vals = [const(v) if not isinstance(v, (list, dict, tuple, set)) else AV(E, "const", v) for v in base.data.values()]
                return join_all(vals).with_(deps=idx.deps)
            return AV(idx.deps, "val")
        # generic value: index selects -> fancy index copies, basic slice keeps view
        view = base.view if is_basic_slice(idx) else None
        shp = base.shape
        return AV(base.deps | idx.deps, "val", None, shp, base.via, view)

    def e_Slice(self, node, fr):
        deps = set()
        for p in (node.lower, node.upper, node.step):
            if p is not None:
                deps |= self.eval(p, fr).deps
        tag = None
        if node.step is None and all(p is None or isinstance(p, ast.Name) for p in (node.lower, node.upper)) \
                and (node.lower is not None or node.upper is not None):
            tag = f"{node.lower.id if node.lower is not None else ''}:{node.upper.id if node.upper is not None else ''}"
        return AV(frozenset(deps), "slice", tag)

    def _display(self, node, fr):
        items = []
        for e in node.elts:
            if isinstance(e, ast.Starred):
                v = self.eval(e.value, fr)
                sub = iter_items(v)
                if sub is not None:
                    items.extend(sub)
                else:
                    items.append(element_of(v))
            else:
                items.append(self.eval(e, fr))
        return items

    def e_Tuple(self, node, fr):
        return AV(E, "tuple", self._display(node, fr))

    def e_List(self, node, fr):
        return AV(E, "list", self._display(node, fr))

    def e_Set(self, node, fr):
        items = [self.eval(e, fr) for e in node.elts]
        return AV(E, "list", items)

    def e_Dict(self, node, fr):
        d = {}
        deps = set()
        ok = True
        for k, v in zip(node.keys, node.values):
            vv = self.eval(v, fr)
            if k is None:
                if vv.kind == "dict" and isinstance(vv.data, dict):
                    d.update(vv.data)
                else:
                    deps |= vv.deps
                continue
            kv = self.eval(k, fr)
            if kv.is_const:
                try:
                    d[kv.data] = vv
                except TypeError:
                    ok = False
            else:
                deps |= kv.deps | vv.deps
        if {"bus", "branch", "gen", "baseMVA"} <= set(k for k in d if isinstance(k, str)):
            return self.ppc_av("ppc")   # the literal that creates a ppc structure
        return AV(frozenset(deps), "dict", d)

    def e_JoinedStr(self, node, fr):
        parts = []
        deps = set()
        for p in node.values:
            if isinstance(p, ast.Constant):
                parts.append(str(p.value))
            else:
                v = self.eval(p.value, fr)
                deps |= v.deps
                if v.is_const and not isinstance(v.data, (list, dict)):
                    parts.append(str(v.data))
                else:
                    parts.append(None)
        if all(p is not None for p in parts):
            return const("".join(parts))
        return AV(frozenset(deps), "val")

    def e_FormattedValue(self, node, fr):
        return self.eval(node.value, fr)

    def e_UnaryOp(self, node, fr):
        v = self.eval(node.operand, fr)
        if v.is_const and v.data is not NOFOLD:
            try:
                if isinstance(node.op, ast.USub):
                    return const(-v.data)
                if isinstance(node.op, ast.Not):
                    return const(not v.data)
                if isinstance(node.op, ast.UAdd):
                    return v
            except Exception:
                pass
        if isinstance(node.op, ast.USub):
            return AV(v.deps, "val", None, sh.neg(v.shape), v.via)
        if isinstance(node.op, (ast.Not, ast.Invert)):
            return AV(v.deps, "val", None, v.shape if v.shape is not sh.TOP else sh.TOP, v.via | frozenset(["op.not"]))
        return AV(v.deps, "val", None, v.shape, v.via)

    def e_BinOp(self, node, fr):
        l = self.eval(node.left, fr)
        r = self.eval(node.right, fr)
        return self.binop(node.op, l, r)

    def binop(self, op, l: AV, r: AV) -> AV:
        if l.is_const and r.is_const and l.data is not NOFOLD and r.data is not NOFOLD:
            try:
                a, b = l.data, r.data
                if isinstance(op, ast.Add):
                    return const(a + b)
                if isinstance(op, ast.Sub):
                    return const(a - b)
                if isinstance(op, ast.Mult):
                    return const(a * b)
                if isinstance(op, ast.Div):
                    return const(a / b)
                if isinstance(op, ast.Mod):
                    return const(a % b)
                if isinstance(op, ast.Pow):
                    return const(a ** b)
                if isinstance(op, ast.FloorDiv):
                    return const(a // b)
            except Exception:
                pass
        if l.kind == "colormeth":
            l = l.with_(kind="val", data=None)
        if r.kind == "colormeth":
            r = r.with_(kind="val", data=None)
        if isinstance(op, ast.Mod) and l.is_const and isinstance(l.data, str) and r.kind == "strset":
            try:
                return AV(r.deps, "strset", frozenset(l.data % x for x in r.data))
            except Exception:
                pass
        if isinstance(op, ast.Add) and l.is_const and isinstance(l.data, str) and r.kind == "strset":
            return AV(r.deps, "strset", frozenset(l.data + x for x in r.data))
        if isinstance(op, ast.Add) and r.is_const and isinstance(r.data, str) and l.kind == "strset":
            return AV(l.deps, "strset", frozenset(x + r.data for x in l.data))
        if isinstance(op, ast.Add) and l.kind in ("list", "tuple") and r.kind in ("list", "tuple"):
            return AV(l.deps | r.deps, l.kind, list(l.data) + list(r.data))
        ls, rs = shape_of(l), shape_of(r)
        if isinstance(op, ast.Add):
            s = sh.add(ls, rs)
        elif isinstance(op, ast.Sub):
            s = sh.sub(ls, rs)
        elif isinstance(op, (ast.Mult, ast.MatMult)):
            s = sh.mul(ls, rs)
        elif isinstance(op, ast.Div):
            s = sh.div(ls, rs)
        elif isinstance(op, ast.Pow):
            s = sh.power(ls, r.data) if (r.is_const and isinstance(r.data, (int, float)) and r.data is not NOFOLD) else sh.TOP
        elif isinstance(op, (ast.BitAnd, ast.BitOr, ast.BitXor)):
            s = mask_shape(l, r)
        elif isinstance(op, ast.Mod):
            s = ls
        else:
            s = sh.TOP
        via = l.via | r.via
        if isinstance(op, ast.BitAnd):
            via = via | frozenset(["op.and"])
        elif isinstance(op, ast.BitOr):
            via = via | frozenset(["op.or"])
        return AV(deps_of(l) | deps_of(r), "val", None, s, via)

    def e_BoolOp(self, node, fr):
        vals = [self.eval(v, fr) for v in node.values]
        # constant folding of and/or
        if all(v.is_const and v.data is not NOFOLD for v in vals):
            if isinstance(node.op, ast.And):
                out = True
                for v in vals:
                    out = out and v.data
                return const(out)
            out = False
            for v in vals:
                out = out or v.data
            return const(out)
        if isinstance(node.op, ast.And) and any(v.is_const and v.data is not NOFOLD and not v.data for v in vals):
            return const(False)
        if isinstance(node.op, ast.Or) and any(v.is_const and v.data is not NOFOLD and v.data is True for v in vals):
            return const(True)
        deps = set()
        for v in vals:
            deps |= deps_of(v)
        nonconst = [v for v in vals if not v.is_const]
        if isinstance(node.op, ast.Or) and vals and vals[0].is_const and vals[0].data is not NOFOLD and not vals[0].data \
                and len(vals) == 2:
            return vals[1]   # "None or default"
        if len(nonconst) == 1 and isinstance(node.op, ast.Or):
            # "x or default"
            return join_all(vals)
        return AV(frozenset(deps), "val", None, sh.S(sh.PURE), frozenset().union(*[v.via for v in vals]) | frozenset(
            ["op.and" if isinstance(node.op, ast.And) else "op.or"]))

    def e_Compare(self, node, fr):
        l = self.eval(node.left, fr)
        rs = [self.eval(c, fr) for c in node.comparators]
        if (self.assume_schema_columns and len(rs) == 1 and isinstance(node.ops[0], (ast.In, ast.NotIn))
                and l.is_const and isinstance(l.data, str)):
            tb = rs[0]
            names = None
            if tb.kind == "columns" and tb.data[2]:
                names = tb.data[1]
            elif tb.kind == "table" and tb.view is not None:
                names = tb.data[1]
            if names and all(l.data in self.schema.input_columns(t) for t in names):
                return const(isinstance(node.ops[0], ast.In))
            if tb.kind == "net" and (self.schema.is_table(l.data) or l.data in self.schema.structure or l.data in EXTRA_TABLES):
                return const(isinstance(node.ops[0], ast.In))
        if len(rs) == 1 and isinstance(node.ops[0], (ast.In, ast.NotIn)) and rs[0].kind == "tmap":
            key = l.data if l.is_const else "*"
            self.keyreads.append((rs[0].data, key, fr.fn.fq if fr.fn else "", node))
            return AV(frozenset([f"{rs[0].data}.{key}"]), "val", None, sh.S(sh.PURE))
        if (len(rs) == 1 and isinstance(node.ops[0], (ast.In, ast.NotIn)) and l.is_const and rs[0].kind == "dict"
                and isinstance(rs[0].data, dict) and not rs[0].deps):
            try:
                return const((l.data in rs[0].data) == isinstance(node.ops[0], ast.In))
            except TypeError:
                pass
        r0 = as_pyconst(rs[0]) if len(rs) == 1 else None
        l0 = as_pyconst(l)
        if len(rs) == 1 and l0 is not None and r0 is not None:
            a, b = l0.data, r0.data
            op = node.ops[0]
            try:
                if isinstance(op, ast.Eq):
                    return const(a == b)
                if isinstance(op, ast.NotEq):
                    return const(a != b)
                if isinstance(op, ast.In):
                    return const(a in b)
                if isinstance(op, ast.NotIn):
                    return const(a not in b)
                if isinstance(op, ast.Is):
                    return const(a is b)
                if isinstance(op, ast.IsNot):
                    return const(a is not b)
                if isinstance(op, ast.Lt):
                    return const(a < b)
                if isinstance(op, ast.Gt):
                    return const(a > b)
                if isinstance(op, ast.LtE):
                    return const(a <= b)
                if isinstance(op, ast.GtE):
                    return const(a >= b)
            except Exception:
                pass
        if len(rs) == 1 and isinstance(node.ops[0], (ast.Eq, ast.NotEq)):
            # a quantity with a physical unit never equals a string literal (`sn_mva != "max_i_ka"`)
            for a_, b_ in ((l, rs[0]), (rs[0], l)):
                if b_.is_const and isinstance(b_.data, str) and a_.kind == "val" and _has_units(a_):
                    return const(isinstance(node.ops[0], ast.NotEq))
        if len(rs) == 1 and isinstance(node.ops[0], (ast.Is, ast.IsNot)) and rs[0].is_const and rs[0].data is None:
            if l.kind not in ("val", "const", "bound", "colormeth", "ext"):
                return const(isinstance(node.ops[0], ast.IsNot))
        deps = set(deps_of(l))
        via = set(l.via)
        for r in rs:
            deps |= deps_of(r)
            via |= r.via
        for op in node.ops:
            via.add("cmp." + type(op).__name__)
        # membership tests on table columns: "col in tab.columns"
        return AV(frozenset(deps), "val", None, sh.S(sh.Mono(facs=frozenset(d for d in deps if not d.startswith("param.")) if len(deps) <= 6 else E)), frozenset(via))

    def e_IfExp(self, node, fr):
        t = self.eval(node.test, fr)
        b = truth(t)
        if b is True:
            return self.eval(node.body, fr)
        if b is False:
            return self.eval(node.orelse, fr)
        x = self.eval(node.body, fr)
        y = self.eval(node.orelse, fr)
        j = join(x, y)
        if j.kind == "val":
            j = j.with_(deps=j.deps | t.deps)
        return j

    def e_Lambda(self, node, fr):
        return AV(E, "lambda", (node, dict(fr.env), fr.fn))

    def e_Starred(self, node, fr):
        return self.eval(node.value, fr)

    def e_NamedExpr(self, node, fr):
        v = self.eval(node.value, fr)
        fr.env[node.target.id] = v
        return v

    def e_Await(self, node, fr):
        return self.eval(node.value, fr)

    def _comp(self, node, fr, elts):
        saved = dict(fr.env)
        results: List[AV] = []

        def rec(i):
            if i == len(node.generators):
                for c_if in []:
                    pass
                results.append([self.eval(e, fr) for e in elts])
                return
            g = node.generators[i]
            it = self.eval(g.iter, fr)
            items = iter_items(it)
            if items is not None and len(items) <= self.unroll_limit:
                for item in items:
                    self.assign(g.target, item, fr, node, loopvar=True)
                    ok = True
                    for c in g.ifs:
                        tv = truth(self.eval(c, fr))
                        if tv is False:
                            ok = False
                    if ok:
                        rec(i + 1)
            else:
                self.assign(g.target, element_of(it), fr, node, loopvar=True)
                for c in g.ifs:
                    self.eval(c, fr)
                rec(i + 1)
        rec(0)
        fr.env = saved
        return results

    def e_ListComp(self, node, fr):
        res = self._comp(node, fr, [node.elt])
        return AV(E, "list", [r[0] for r in res])

    e_SetComp = e_ListComp
    e_GeneratorExp = e_ListComp

    def e_DictComp(self, node, fr):
        res = self._comp(node, fr, [node.key, node.value])
        d = {}
        deps = set()
        for k, v in res:
            if k.is_const:
                try:
                    d[k.data] = v
                    continue
                except TypeError:
                    pass
            deps |= k.deps | v.deps
        return AV(frozenset(deps), "dict", d)

    # ------------------------------------------------------------------ calls
    def e_Call(self, node, fr):
        # list mutation on a local list display: rebind the name to a new abstract list
        fn = node.func
        if (isinstance(fn, ast.Attribute) and isinstance(fn.value, ast.Name) and fn.attr in ("remove", "append", "extend")
                and fn.value.id in fr.env and fr.env[fn.value.id].kind == "list" and len(node.args) == 1 and not node.keywords):
            cur = fr.env[fn.value.id]
            a = self.eval(node.args[0], fr)
            if fn.attr == "append":
                fr.env[fn.value.id] = AV(cur.deps, "list", list(cur.data) + [a])
                return const(None)
            if fn.attr == "extend" and a.kind in ("list", "tuple"):
                fr.env[fn.value.id] = AV(cur.deps, "list", list(cur.data) + list(a.data))
                return const(None)
            if fn.attr == "remove" and a.is_const:
                new = list(cur.data)
                for i, x in enumerate(new):
                    if x.is_const and x.data == a.data:
                        del new[i]
                        break
                fr.env[fn.value.id] = AV(cur.deps, "list", new)
                return const(None)
        f = self.eval(node.func, fr)
        args = []
        for a in node.args:
            v = self.eval(a.value if isinstance(a, ast.Starred) else a, fr)
            if isinstance(a, ast.Starred) and v.kind in ("tuple", "list"):
                args.extend(v.data)
            else:
                args.append(v)
        kwargs = {}
        extra = []
        for kw in node.keywords:
            v = self.eval(kw.value, fr)
            if kw.arg is None:
                if v.kind == "dict" and isinstance(v.data, dict):
                    for k2, v2 in v.data.items():
                        if isinstance(k2, str):
                            kwargs[k2] = v2
                else:
                    extra.append(v)
            else:
                kwargs[kw.arg] = v
        return self.call(f, args, kwargs, fr, node, extra)

    def call(self, f: AV, args: List[AV], kwargs: Dict[str, AV], fr: Frame, node, extra=()) -> AV:
        alld = set()
        for a in list(args) + list(kwargs.values()) + list(extra):
            alld |= deps_of(a)
        k = f.kind
        if k == "func":
            fi: FunctionInfo = f.data
            return self.call_function(fi, args, kwargs, fr, node)
        if k == "class":
            ci: ClassInfo = f.data
            self.resolved_calls += 1
            obj = AV(frozenset(alld), "obj", {"__class__": ci})
            init = self.repo.resolve_method(ci, "__init__")
            if isinstance(init, FunctionInfo) and self.instantiate_objects:
                self.call_function(init, [obj] + list(args), kwargs, fr, node)
            return obj
        if k == "bmeth":
            obj, mfi = f.data
            return self.call_function(mfi, [obj] + list(args), kwargs, fr, node)
        if k == "lambda":
            lnode, lenv, lfn = f.data
            sub = Frame(lfn, dict(lenv), fr.depth)
            for p, a in zip(lnode.args.args, args):
                sub.env[p.arg] = a
            return self.eval(lnode.body, sub)
        if k == "colormeth":
            base, meth = f.data
            return self.table_method(base, meth, args, kwargs, fr, node)
        if k == "bound":
            base, meth = f.data
            return self.bound_method(base, meth, args, kwargs, fr, node, frozenset(alld))
        if k == "cmeth":
            val, meth = f.data
            try:
                if all(a.is_const and a.data is not NOFOLD for a in args) and not kwargs and val is not NOFOLD:
                    return const(getattr(val, meth)(*[a.data for a in args]))
            except Exception:
                pass
            return AV(frozenset(alld), "val")
        if k == "ext":
            return self.external_call(f.data, args, kwargs, fr, node, frozenset(alld))
        self.unresolved_calls += 1
        return AV(frozenset(alld) | f.deps, "val", None, sh.TOP, frozenset(["call.?"]))

    def call_function(self, fi: FunctionInfo, args, kwargs, fr, node) -> AV:
        self.resolved_calls += 1
        if self.track_calls:
            self.calls.append(CallEvent(fi, args, kwargs, fr.fn, node, tuple(self.stack), fr.ctrl_deps(), tuple(fr.guards)))
        if self.on_call is not None:
            r = self.on_call(self, fi, args, kwargs, fr, node)
            if r is not None:
                return r
        summ = self.summaries.get(fi.fq) or self.summaries.get(fi.name)
        if summ is not None:
            return summ(self, fi, args, kwargs, fr, node)
        alld = set()
        for a in list(args) + list(kwargs.values()):
            alld |= deps_of(a)
        if fr.depth >= self.max_depth or fi.fq in self.stack or fi.fq in self.no_inline:
            return AV(frozenset(alld), "val", None, sh.TOP, frozenset([f"call.{fi.name}"]))
        # bind
        a = fi.node.args
        params = [p.arg for p in a.posonlyargs + a.args]
        bound: Dict[str, AV] = {}
        pos = list(args)
        if fi.cls is not None and params and params[0] in ("self", "cls") and not _is_static(fi):
            # unbound call through the class table: self is an opaque object
            if len(pos) < len(params) or True:
                if not (pos and pos[0].kind in ("instance", "obj")):
                    ci0 = fi.module.classes.get(fi.cls)
                    pos = [AV(E, "obj", {"__class__": ci0} if ci0 is not None else {})] + pos
        for p, v in zip(params, pos):
            bound[p] = v
        if len(pos) > len(params) and a.vararg:
            bound[a.vararg.arg] = AV(E, "tuple", pos[len(params):])
        kwrest = {}
        allparams = set(params) | {p.arg for p in a.kwonlyargs}
        for kname, v in kwargs.items():
            if kname in allparams:
                bound[kname] = v
            else:
                kwrest[kname] = v
        if a.kwarg:
            bound[a.kwarg.arg] = AV(E, "dict", kwrest)
        mkey = None
        if self.memo_calls:
            mkey = (fi.fq, tuple(sorted((k, _coarse_sig(v)) for k, v in bound.items())))
            hit = self._memo.get(mkey)
            if hit is not None:
                ret, sts = hit
                self.stores.extend(sts)
                return ret
        n0 = len(self.stores)
        sub = self.run_function(fi, bound, fr.depth + 1)
        r = sub.ret
        if r.kind == "bottom":
            r = const(None)
        if mkey is not None:
            self._memo[mkey] = (r, self.stores[n0:])
        return r

    def table_method(self, base: AV, meth: str, args, kwargs, fr, node) -> AV:
        """tab.<meth>(...) on a DataFrame-like table value."""
        tag, names = base.data
        alld = set(base.deps)
        for a in list(args) + list(kwargs.values()):
            alld |= deps_of(a)
        whole = frozenset(f"{tag}.{t}.*" for t in names)
        inplace = kwargs.get("inplace")
        is_inplace = inplace is not None and inplace.is_const and inplace.data is True
        if meth in ("drop", "drop_duplicates", "dropna", "sort_index", "sort_values", "reset_index", "set_index",
                    "rename", "fillna", "replace", "update", "insert", "pop", "reindex", "clear"):
            mut = is_inplace or meth in ("update", "insert", "pop", "clear")
            if mut and base.view is not None:
                axis = kwargs.get("axis")
                colwise = (axis is not None and axis.is_const and axis.data in (1, "columns")) or "columns" in kwargs
                for t in sorted(names):
                    what = "@cols" if colwise or meth in ("rename", "insert", "pop") else ("@rows" if meth in ("drop", "drop_duplicates", "dropna") else "*")
                    self._mkstore(f"{tag}.{t}.{what}", AV(frozenset(alld)), UNKNOWN, fr, node, op=f"{meth}.inplace")
            return AV(frozenset(alld) | whole, "table", base.data, sh.TOP, base.via, None)
        if meth in ("copy", "merge", "join", "query", "head", "tail", "sample", "astype", "infer_objects", "assign",
                    "where", "mask", "groupby", "apply", "sort", "nlargest", "nsmallest", "filter", "select_dtypes"):
            if meth == "merge":
                other = args[0] if args else kwargs.get("right")
                names2 = names
                if other is not None and other.kind == "table":
                    names2 = names | other.data[1]
                    whole = whole | frozenset(f"{other.data[0]}.{t}.*" for t in other.data[1])
                return AV(frozenset(alld), "table", (tag, names2), sh.TOP, base.via | frozenset(["merge"]), None)
            keep = None
            if meth == "copy" and "deep" in kwargs and truth(kwargs["deep"]) is False:
                keep = base.view   # shallow copy shares the data blocks
            return AV(frozenset(alld), "table", base.data, sh.TOP, base.via | frozenset([meth]), keep)
        if meth in ("get",):
            if args and args[0].is_const and isinstance(args[0].data, str):
                c = self.table_col(base, [args[0].data])
                if len(args) > 1:
                    return join(c, args[1])
                return c
        if meth in ("iterrows", "itertuples"):
            return AV(frozenset(alld) | whole, "rowiter", (base, meth), sh.TOP, base.via | frozenset([meth]))
        if meth in ("items", "iterrows", "itertuples", "keys", "to_dict", "to_numpy", "isnull", "isna", "notnull",
                    "any", "all", "sum", "max", "min", "count", "duplicated", "equals", "memory_usage", "nunique"):
            return AV(frozenset(alld) | whole, "val", None, sh.TOP, base.via | frozenset([meth]))
        if meth == "__len__":
            return AV(frozenset(f"{tag}.{t}.@len" for t in names), "val", None, sh.S(sh.PURE))
        # otherwise: the attribute was a column and the call is on the Series, unusual; or unknown method
        return AV(frozenset(alld) | whole, "val", None, sh.TOP, base.via | frozenset([meth]))

    def bound_method(self, base: AV, meth: str, args, kwargs, fr, node, alld) -> AV:
        k = base.kind
        if k == "net":
            if meth == "get":
                if args and args[0].is_const and isinstance(args[0].data, str):
                    r = self.net_member(base, args[0].data)
                    if len(args) > 1:
                        return join(r, args[1])
                    return r
                return AV(alld, "val")
            if meth in ("deepcopy", "copy"):
                return AV(E, "net", base.data + "#copy")
            if meth in ("keys", "items", "values"):
                return AV(frozenset([f"{base.data}.*"]), "val")
            if meth == "pop":
                if args and args[0].is_const:
                    self._mkstore(f"{base.data}.{args[0].data}", UNKNOWN, UNKNOWN, fr, node, op="pop")
                return UNKNOWN
            return AV(alld, "val")
        if k in ("options", "is_elements", "lookups"):
            if meth == "get" and args:
                r = self.subscript(base, args[0], fr)
                if len(args) > 1:
                    r = join(r, args[1])
                return r
            if meth == "update":
                self._mkstore(f"{base.data}._{k}.*", join_all(list(args)) if args else UNKNOWN, UNKNOWN, fr, node, op="update")
            return AV(alld | base.deps, "val")
        if k == "tmap":
            if meth in ("get", "pop", "__getitem__") and args:
                r = self.subscript(base, args[0], fr, node)
                if len(args) > 1:
                    r = join(r, args[1])
                return r
            if meth == "copy":
                return base
            if meth in ("items", "keys", "values", "update"):
                self.keyreads.append((base.data, "*", fr.fn.fq if fr.fn else "", node))
            return AV(alld | frozenset([f"{base.data}.*"]), "val")
        if k == "dict":
            if meth == "get" and args and args[0].is_const and isinstance(base.data, dict):
                if args[0].data in base.data:
                    return base.data[args[0].data]
                return args[1] if len(args) > 1 else const(None)
            if meth in ("keys",) and isinstance(base.data, dict):
                return AV(base.deps, "list", [const(x) for x in base.data])
            if meth in ("values",) and isinstance(base.data, dict):
                return AV(base.deps, "list", list(base.data.values()))
            if meth in ("items",) and isinstance(base.data, dict):
                return AV(base.deps, "list", [AV(E, "tuple", [const(x), y]) for x, y in base.data.items()])
            if meth == "update" and args and args[0].kind == "dict" and isinstance(base.data, dict):
                base.data.update(args[0].data)
                return const(None)
            return AV(alld | base.deps, "val")
        if k == "ppc":
            if meth == "get" and args:
                return self.subscript(base, args[0], fr)
            return AV(alld, "val")
        if k == "tableloc":
            return AV(alld | base.deps, "val")
        # generic value methods
        if k == "matrix":
            return AV(alld | frozenset([f"ppc.{base.data}.*"]), "val")
        v = base
        if meth in SHAPE_PRESERVING_METHODS:
            view = None if meth in FRESH_METHODS else v.view
            if meth in ("to_numpy", "view", "reshape", "ravel", "squeeze", "transpose", "__array__") and not (kwargs.get("copy") and truth(kwargs["copy"]) is True):
                view = v.view
            s = v.shape
            via = v.via | frozenset([f"m.{meth}"])
            d = v.deps
            if meth in ("fillna", "clip", "get", "reindex"):
                for a in args:
                    d = d | deps_of(a)
                    if meth == "fillna":
                        s = sh.add(s, shape_of(a))
            return AV(d, "val", None, s, via, view)
        if meth in ("any", "all", "isin", "isnull", "isna", "notnull", "notna", "nonzero", "argsort", "argmax",
                    "argmin", "startswith", "endswith", "contains", "duplicated", "between", "eq", "ne", "lt", "gt",
                    "le", "ge", "is_unique", "equals"):
            return AV(alld | v.deps, "val", None, sh.S(sh.PURE), v.via | frozenset([f"m.{meth}"]))
        if meth in ("fill", "sort", "resize", "put", "itemset", "setfield", "partition", "update", "append", "extend",
                    "add", "remove", "insert", "clear", "pop", "discard", "setdefault"):
            if v.view and meth in ("fill", "sort", "put", "itemset", "partition", "update"):
                self._record_view_write(v, join_all(list(args)) if args else UNKNOWN, fr, node, op=f"m.{meth}")
            return const(None)
        if meth in ("multiply", "mul", "dot"):
            return AV(alld | v.deps, "val", None, sh.mul(v.shape, shape_of(args[0])) if args else sh.TOP, v.via)
        if meth in ("div", "divide", "truediv"):
            return AV(alld | v.deps, "val", None, sh.div(v.shape, shape_of(args[0])) if args else sh.TOP, v.via)
        if meth in ("add",):
            return AV(alld | v.deps, "val", None, sh.add(v.shape, shape_of(args[0])) if args else sh.TOP, v.via)
        if meth in ("sub", "subtract"):
            return AV(alld | v.deps, "val", None, sh.sub(v.shape, shape_of(args[0])) if args else sh.TOP, v.via)
        if meth in ("map", "apply", "replace", "groupby", "agg", "transform", "where", "mask"):
            return AV(alld | v.deps, "val", None, sh.TOP, v.via | frozenset([f"m.{meth}"]))
        return AV(alld | v.deps, "val", None, sh.TOP, v.via | frozenset([f"m.{meth}"]))

    def external_call(self, name: str, args, kwargs, fr, node, alld) -> AV:
        if self.track_calls and name.rsplit(".", 1)[-1] in self.track_external:
            self.ext_calls.append((name, list(args), dict(kwargs), fr.fn, node))
        short = name.rsplit(".", 1)[-1]
        root = name.split(".")[0]
        a0 = args[0] if args else None
        via = frozenset([name])
        for a in args:
            via = via | a.via
        if name in ("len",):
            if a0 is not None and a0.kind == "table":
                tag, names = a0.data
                return AV(frozenset(f"{tag}.{t}.@len" for t in names) | a0.deps, "val", None, sh.S(sh.PURE))
            if a0 is not None and a0.kind in ("list", "tuple"):
                return const(len(a0.data))
            return AV(alld, "val", None, sh.S(sh.PURE))
        if name in ("isinstance", "hasattr", "callable", "issubclass", "type", "id", "print", "repr", "str", "bool"):
            if name == "str" and a0 is not None and a0.is_const:
                return const(str(a0.data))
            if name == "isinstance" and a0 is not None and a0.is_const and a0.data is not NOFOLD and not a0.deps \
                    and isinstance(node, ast.Call) and len(node.args) == 2:
                tn = node.args[1]
                tns = tn.elts if isinstance(tn, ast.Tuple) else [tn]
                bt = {"bool": bool, "int": int, "float": float, "str": str, "list": list, "tuple": tuple, "dict": dict, "set": set}
                if all(isinstance(x, ast.Name) and x.id in bt for x in tns):
                    return const(isinstance(a0.data, tuple(bt[x.id] for x in tns)))
            return AV(alld, "val", None, sh.S(sh.PURE))
        if name in ("int", "float", "complex", "abs"):
            if a0 is None:
                return const(0)
            if a0.is_const and a0.data is not NOFOLD:
                try:
                    return const({"int": int, "float": float, "complex": complex, "abs": abs}[name](a0.data))
                except Exception:
                    pass
            s = shape_of(a0)
            return AV(deps_of(a0), "val", None, sh.absval(s) if name == "abs" else s, via)
        if name in ("list", "tuple", "set", "sorted", "reversed", "frozenset", "iter"):
            if a0 is None:
                return AV(E, "list", [])
            if a0.kind in ("list", "tuple"):
                return AV(a0.deps, "list", list(a0.data))
            if a0.is_const and isinstance(a0.data, (list, tuple, set, dict, frozenset)):
                return AV(E, "list", [const(x) for x in a0.data])
            return AV(deps_of(a0), "val", None, shape_of(a0), via, None)
        if name == "dict" and a0 is not None and a0.kind == "tmap":
            return a0   # a private copy of a tracked mapping: key reads on it are still reads of the mapping
        if name == "dict":
            d = {}
            if a0 is not None and a0.kind == "dict":
                d.update(a0.data)
            elif a0 is not None:
                # dict(zip(keys, values)): a mapping whose lookups depend on both
                shp = sh.TOP
                if a0.kind == "list" and a0.data and all(x.kind == "tuple" and len(x.data) == 2 for x in a0.data):
                    shp = shape_of(join_all([x.data[1] for x in a0.data]))
                elif a0.kind == "zip" and len(a0.data) == 2:
                    shp = shape_of(a0.data[1])
                return AV(alld, "val", None, shp, via | frozenset(["dict"]))
            d.update(kwargs)
            return AV(E, "dict", d)
        if name in ("zip", "enumerate", "range", "map", "filter"):
            if name == "zip" and all(a.kind in ("list", "tuple") for a in args) and args:
                n = min(len(a.data) for a in args)
                return AV(E, "list", [AV(E, "tuple", [a.data[i] for a in args]) for i in range(n)])
            if name == "zip" and all(iter_items(a) is not None for a in args) and args:
                its = [iter_items(a) for a in args]
                n = min(len(i) for i in its)
                return AV(E, "list", [AV(E, "tuple", [i[j] for i in its]) for j in range(n)])
            if name == "enumerate" and a0 is not None and iter_items(a0) is not None:
                return AV(E, "list", [AV(E, "tuple", [const(i), x]) for i, x in enumerate(iter_items(a0))])
            if name == "range" and all(a.is_const for a in args):
                try:
                    r = range(*[a.data for a in args])
                    if len(r) <= 32:
                        return AV(E, "list", [const(i) for i in r])
                except Exception:
                    pass
            if name == "zip":
                return AV(alld, "zip", list(args), sh.TOP, via)
            return AV(alld, "val", None, sh.S(sh.PURE) if name == "range" else sh.TOP, via)
        if name in ("sum", "max", "min", "any", "all"):
            if a0 is not None and a0.kind in ("list", "tuple"):
                j = join_all([x if x.kind != "colormeth" else x.with_(kind="val", data=None) for x in a0.data])
                return AV(deps_of(j) | alld, "val", None, shape_of(j) if name in ("sum", "max", "min") else sh.S(sh.PURE), via)
            if name in ("max", "min") and len(args) > 1:
                j = join_all(args)
                return AV(alld, "val", None, shape_of(j), via)
            return AV(alld, "val", None, shape_of(a0) if (a0 is not None and name in ("sum", "max", "min")) else sh.S(sh.PURE), via)
        if name == "getattr":
            if len(args) >= 2 and args[1].is_const and isinstance(args[1].data, str):
                r = self.getattr_av(args[0], args[1].data, fr)
                if len(args) > 2 and r.kind == "val":
                    r = join(r, args[2])
                return r
            if len(args) >= 2 and args[0].kind == "net":
                return self.subscript(args[0], args[1], fr, None)
            return AV(alld, "val")
        if name == "setattr":
            if len(args) >= 3 and args[1].is_const and args[0].kind == "net":
                self._mkstore(f"{args[0].data}.{args[1].data}", args[2], UNKNOWN, fr, node, op="setattr")
            return const(None)
        if name in ("copy.deepcopy", "deepcopy", "copy.copy", "copy"):
            if a0 is not None and a0.kind == "net":
                return AV(E, "net", a0.data + "#copy")
            if a0 is not None and a0.kind == "table":
                return AV(a0.deps, "table", a0.data, sh.TOP, a0.via, None)
            if a0 is not None:
                return a0.with_(view=None)
            return UNKNOWN
        if "out" in kwargs and kwargs["out"].kind == "val" and kwargs["out"].origin in fr.env:
            # ufunc(..., out=x): the result is written into x
            kw2 = {k: v for k, v in kwargs.items() if k != "out"}
            res = self.external_call(name, args, kw2, fr, node, alld)
            o = kwargs["out"]
            new = AV(o.deps | res.deps, "val", None, sh.add(o.shape, res.shape), o.via | res.via, o.view, o.origin)
            fr.env[o.origin] = new
            if o.view:
                self._record_view_write(o, res, fr, node, op="out=")
            return new
        if root in ("np", "numpy", "math", "cmath", "sp", "scipy", "nb", "numba") or name in ("sqrt", "pi", "exp", "isnan", "array", "zeros", "ones", "hstack", "vstack", "real", "imag", "conj", "square", "deg2rad", "rad2deg", "cos", "sin", "arange", "nan_to_num", "isin", "where", "maximum", "minimum", "concatenate", "angle", "float64", "complex128", "int64", "any", "all", "diag", "absolute", "r_", "c_", "flatnonzero", "setdiff1d", "unique", "in1d", "nan", "inf", "ix_", "searchsorted", "full", "empty", "zeros_like", "ones_like", "logical_and", "logical_or", "invert", "bitwise_and", "bitwise_or", "copyto", "fill_diagonal", "put", "place", "putmask", "add.at", "tan", "arctan", "arctan2", "arccos", "arcsin", "log", "log10", "power", "multiply", "divide", "subtract", "add", "sign", "ceil", "floor", "round", "rint"):
            return self.numpy_call(short, name, args, kwargs, fr, node, alld, via)
        if root in ("pd", "pandas"):
            if short in ("isnull", "isna", "notnull", "notna"):
                return AV(alld, "val", None, sh.S(sh.PURE), via)
            if short in ("concat",):
                if a0 is not None and a0.kind in ("list", "tuple"):
                    tabs = [x for x in a0.data if x.kind == "table"]
                    if tabs:
                        names = frozenset().union(*[t.data[1] for t in tabs])
                        return AV(alld, "table", (tabs[0].data[0], names), sh.TOP, via, None)
                    j = join_all(a0.data)
                    return AV(alld, "val", None, shape_of(j), via)
            if short in ("Series", "DataFrame", "Index", "to_numeric", "array"):
                if a0 is not None:
                    return AV(alld, "val", None, shape_of(a0), via, None)
            return AV(alld, "val", None, sh.TOP, via)
        self.unresolved_calls += 1
        return AV(alld, "val", None, sh.TOP, via | frozenset(["call.ext"]))

    def numpy_call(self, short, name, args, kwargs, fr, node, alld, via) -> AV:
        a0 = args[0] if args else None
        if short == "real" and a0 is not None:
            return AV(alld, "val", None, sh.real_part(shape_of(a0)), via, a0.view)
        if short == "imag" and a0 is not None:
            return AV(alld, "val", None, sh.imag_part(shape_of(a0)), via, a0.view)
        if short in ("sqrt",):
            return AV(alld, "val", None, sh.power(shape_of(a0), Fraction(1, 2)) if a0 is not None else sh.TOP, via)
        if short in ("square",):
            return AV(alld, "val", None, sh.power(shape_of(a0), 2) if a0 is not None else sh.TOP, via)
        if short in ("power",) and len(args) == 2 and args[1].is_const:
            return AV(alld, "val", None, sh.power(shape_of(a0), args[1].data), via)
        if short in ("abs", "absolute"):
            return AV(alld, "val", None, sh.absval(shape_of(a0)) if a0 is not None else sh.TOP, via)
        if short in ("multiply", "dot", "matmul", "outer", "kron") and len(args) >= 2:
            return AV(alld, "val", None, sh.mul(shape_of(args[0]), shape_of(args[1])), via)
        if short in ("divide", "true_divide") and len(args) >= 2:
            return AV(alld, "val", None, sh.div(shape_of(args[0]), shape_of(args[1])), via)
        if short == "add" and len(args) >= 2:
            return AV(alld, "val", None, sh.add(shape_of(args[0]), shape_of(args[1])), via)
        if short == "subtract" and len(args) >= 2:
            return AV(alld, "val", None, sh.sub(shape_of(args[0]), shape_of(args[1])), via)
        if short in ("where", "select", "choose"):
            if len(args) == 3:
                return AV(alld, "val", None, sh.add(shape_of(args[1]), shape_of(args[2])), via)
            return AV(alld, "val", None, sh.S(sh.PURE), via)
        if short in ("maximum", "minimum", "fmax", "fmin", "clip", "hypot", "copysign"):
            s = sh.ZERO
            for a in args:
                s = sh.add(s, shape_of(a))
            for kw in ("a_min", "a_max", "min", "max"):
                if kw in kwargs:
                    s = sh.add(s, shape_of(kwargs[kw]))
            return AV(alld, "val", None, s, via)
        if short in ("hstack", "vstack", "concatenate", "stack", "column_stack", "r_", "c_", "append", "insert"):
            items = []
            for a in args:
                if a.kind in ("list", "tuple"):
                    items.extend(a.data)
                else:
                    items.append(a)
            items = [x if x.kind != "colormeth" else x.with_(kind="val", data=None) for x in items]
            j = join_all(items)
            return AV(alld | deps_of(j), "val", None, shape_of(j), via, None)
        if short in ("exp", "cos", "sin", "tan", "arctan", "arctan2", "arccos", "arcsin", "log", "log10", "angle",
                     "deg2rad", "rad2deg", "radians", "degrees", "cosh", "sinh", "tanh", "arctanh", "acos", "asin", "atan", "atan2"):
            return AV(alld, "val", None, sh.S(sh.Mono(facs=frozenset(alld) if len(alld) <= 4 else E)), via)
        if short in NP_ZERO:
            return AV(alld, "val", None, sh.ZERO, via)
        if short in NP_ONE:
            s = sh.S(sh.PURE)
            if short in ("full", "full_like") and len(args) > 1:
                s = shape_of(args[1])
            return AV(alld, "val", None, s, via)
        if short in NP_MASK:
            return AV(alld, "val", None, sh.S(sh.PURE), via)
        if short in ("copyto", "fill_diagonal", "put", "place", "putmask", "at"):
            if a0 is not None and a0.view:
                self._record_view_write(a0, join_all(args[1:]) if len(args) > 1 else UNKNOWN, fr, node, op=f"np.{short}")
            return const(None)
        if short in ("pi", "e", "inf", "nan", "euler_gamma"):
            return AV(E, "const", NOFOLD, sh.S(sh.PURE))
        if short in NP_PRESERVE or short in ("ceil", "floor", "rint", "sign", "diff", "cumsum", "interp", "nanmean", "average", "prod", "ix_", "isscalar", "ndim", "shape", "size"):
            if a0 is None:
                return AV(alld, "val", None, sh.TOP, via)
            if a0.kind in ("list", "tuple"):
                items = [x if x.kind != "colormeth" else x.with_(kind="val", data=None) for x in a0.data]
                j = join_all(items)
                return AV(alld | deps_of(j), "val", None, shape_of(j), via, None)
            view = a0.view if short in ("asarray", "ravel", "squeeze", "transpose", "atleast_1d", "asanyarray", "reshape", "real", "imag") else None
            if short == "array" and "copy" in kwargs and truth(kwargs["copy"]) is False:
                view = a0.view
            return AV(alld, "val", None, shape_of(a0), via, view)
        self.unresolved_calls += 1
        return AV(alld, "val", None, sh.TOP, via)


# ------------------------------------------------------------------------------------ helpers
PURE_EXT_CONSTS = {"math.pi", "np.pi", "numpy.pi", "math.e", "np.e", "numpy.e", "cmath.pi", "scipy.pi"}
NAN_EXT_CONSTS = {"np.nan", "numpy.nan", "np.inf", "numpy.inf", "math.inf", "math.nan", "np.NaN", "np.Inf", "numpy.NaN"}


def ext_value(name: str) -> AV:
    if name in PURE_EXT_CONSTS:
        return AV(E, "const", NOFOLD, sh.S(sh.PURE))
    if name in NAN_EXT_CONSTS:
        return AV(E, "const", NOFOLD, sh.ZERO)
    return AV(E, "ext", name)


def _load(t):
    import copy as _c
    n = _c.copy(t)
    if hasattr(n, "ctx"):
        n.ctx = ast.Load()
    return n


def _is_static(fi: FunctionInfo) -> bool:
    for d in fi.node.decorator_list:
        if isinstance(d, ast.Name) and d.id == "staticmethod":
            return True
    return False


def _is_direct_table(a: AV) -> bool:
    return a.kind == "table"


def _terminates(body) -> bool:
    if not body:
        return False
    last = body[-1]
    if isinstance(last, (ast.Return, ast.Raise, ast.Continue, ast.Break)):
        return True
    if isinstance(last, ast.If) and last.orelse:
        return _terminates(last.body) and _terminates(last.orelse)
    return False


def join_env(a: Dict[str, AV], b: Dict[str, AV]) -> Dict[str, AV]:
    out = {}
    for k in set(a) | set(b):
        if k in a and k in b:
            out[k] = join(a[k], b[k])
        else:
            out[k] = a.get(k) or b.get(k)
    return out


def truth(v: AV):
    if v.kind == "const" and v.data is not NOFOLD:
        try:
            return bool(v.data)
        except Exception:
            return None
    if v.kind in ("func", "class", "net", "ppc", "module"):
        return True
    return None


def _coarse_sig(v: AV):
    """Coarse abstract signature of an argument for memoisation in effect sweeps: kind and identity of
    structural references; value contents (deps, shapes) are ignored."""
    k = v.kind
    if k == "const":
        d = v.data
        try:
            hash(d)
            return (k, d if not isinstance(d, float) else repr(d))
        except TypeError:
            return (k, repr(d)[:80])
    if k in ("net", "ppc", "matrix", "options", "lookups", "is_elements", "lookup"):
        return (k, str(v.data))
    if k == "table":
        return (k, v.data[0], tuple(sorted(v.data[1])), v.view is not None)
    if k == "strset":
        return (k, tuple(sorted(v.data)))
    if k == "obj":
        ci = v.data.get("__class__") if isinstance(v.data, dict) else None
        inner = tuple(sorted((a, _coarse_sig(x)) for a, x in v.data.items() if isinstance(x, AV) and x.kind in ("net", "ppc", "table")))
        return (k, getattr(ci, "fq", None), inner)
    if k in ("tuple", "list"):
        return (k, len(v.data)) if len(v.data) > 6 else (k, tuple(_coarse_sig(x) for x in v.data))
    if k == "dict":
        return (k, tuple(sorted(str(x) for x in v.data)) if isinstance(v.data, dict) and len(v.data) < 12 else None)
    if k == "func":
        return (k, v.data.fq)
    if k == "val":
        return (k, tuple(sorted(v.view)) if v.view else None)
    return (k,)


def as_pyconst(v: AV) -> Optional[AV]:
    """const AV for constants and for list/tuple displays of constants, else None."""
    if v.kind == "const":
        return v if v.data is not NOFOLD else None
    if v.kind in ("list", "tuple") and all(x.kind == "const" and x.data is not NOFOLD for x in v.data):
        vals = [x.data for x in v.data]
        return AV(E, "const", vals if v.kind == "list" else tuple(vals))
    return None


def deps_of(v: AV) -> FrozenSet[str]:
    if v.kind == "alist":
        return v.deps | deps_of(v.data)
    if v.kind in ("tuple", "list", "zip"):
        out = set(v.deps)
        for x in v.data:
            out |= deps_of(x)
        return frozenset(out)
    if v.kind == "dict" and isinstance(v.data, dict):
        out = set(v.deps)
        for x in v.data.values():
            if isinstance(x, AV):
                out |= deps_of(x)
        return frozenset(out)
    if v.kind == "table":
        tag, names = v.data
        return v.deps | frozenset(f"{tag}.{t}.*" for t in names)
    return v.deps


def shape_of(v: AV):
    if v.kind in ("tuple", "list"):
        s = sh.ZERO
        for x in v.data:
            s = sh.add(s, shape_of(x))
        return s
    if v.kind in ("val", "const", "colormeth", "colconst", "lookup"):
        return v.shape
    if v.kind == "bottom":
        return sh.ZERO
    return sh.TOP


def mask_shape(l: AV, r: AV):
    return sh.S(sh.PURE)


def _has_units(a: AV) -> bool:
    s_ = a.shape
    if s_ is sh.TOP or sh.is_bad(s_) or not s_:
        return False
    try:
        return all(m.exp("V") != 0 or m.exp("A") != 0 for m in s_)
    except Exception:
        return False


def iter_items(it: AV) -> Optional[List[AV]]:
    if it.kind in ("list", "tuple"):
        return list(it.data)
    if it.kind == "const" and isinstance(it.data, (list, tuple, set, frozenset)):
        return [const(x) if not isinstance(x, (list, tuple, dict, set)) else
                (AV(E, "tuple", [const(y) for y in x]) if isinstance(x, (list, tuple)) else AV(E, "const", x))
                for x in (sorted(it.data, key=repr) if isinstance(it.data, (set, frozenset)) else it.data)]
    if it.kind == "const" and isinstance(it.data, dict):
        return [const(x) for x in it.data]
    if it.kind == "dict" and isinstance(it.data, dict) and not it.deps:
        return [const(x) for x in it.data]
    if it.kind == "strset":
        return [const(x) for x in sorted(it.data)]
    return None


def element_of(it: AV) -> AV:
    if it.kind == "alist":
        return it.data
    if it.kind == "rowiter":
        base, meth = it.data
        row = AV(it.deps, "row", base, sh.TOP, it.via)
        if meth == "iterrows":
            tag, names = base.data
            idx = AV(frozenset(f"{tag}.{t}.@index" for t in names), "val", None, sh.S(sh.PURE))
            return AV(E, "tuple", [idx, row])
        return row
    if it.kind == "zip":
        return AV(E, "tuple", [element_of(x) for x in it.data])
    if it.kind in ("list", "tuple"):
        if not it.data:
            return AV(it.deps, "val")
        return join_all(list(it.data))
    if it.kind == "const" and isinstance(it.data, (list, tuple, set, frozenset)):
        strs = [x for x in it.data if isinstance(x, str)]
        if strs and len(strs) == len(it.data):
            return AV(E, "strset", frozenset(strs))
        return AV(E, "val")
    if it.kind == "table":
        return AV(deps_of(it), "val")
    return AV(deps_of(it), "val", None, it.shape if it.kind == "val" else sh.TOP, it.via)


def col_keys(idx: AV) -> Optional[List[str]]:
    """Column names if idx is a constant string or a list of constant strings."""
    if idx.is_const and isinstance(idx.data, str):
        return [idx.data]
    if idx.is_const and isinstance(idx.data, (list, tuple)) and idx.data and all(isinstance(x, str) for x in idx.data):
        return list(idx.data)
    if idx.kind in ("list", "tuple") and idx.data and all(x.is_const and isinstance(x.data, str) for x in idx.data):
        return [x.data for x in idx.data]
    if idx.kind == "strset":
        return sorted(idx.data)
    return None


def loc_cols(idx: AV) -> Optional[List[str]]:
    if idx.kind == "tuple" and len(idx.data) == 2:
        return col_keys(idx.data[1])
    return None


def matrix_cols(idx: AV) -> Optional[List[str]]:
    if idx.kind == "tuple" and len(idx.data) == 2:
        c = idx.data[1]
        if c.kind == "colconst":
            return [c.data[0]]
        if c.kind in ("list", "tuple") and c.data and all(x.kind == "colconst" for x in c.data):
            return [x.data[0] for x in c.data]
        if c.is_const and isinstance(c.data, int):
            return [str(c.data)]
        if c.kind == "slice":
            return None
        return ["?"]
    return None


def idx_row_deps(idx: AV) -> Set[str]:
    if idx.kind == "tuple" and idx.data:
        return set(deps_of(idx.data[0]))
    return set(deps_of(idx))


def is_basic_slice(idx: AV) -> bool:
    if idx.kind == "slice":
        return True
    if idx.is_const and isinstance(idx.data, int):
        return True
    if idx.kind == "tuple":
        return all(is_basic_slice(x) or x.kind == "colconst" for x in idx.data)
    return False


def _full_slice(idx: AV) -> bool:
    return idx.kind == "slice" and not idx.deps


def prefix_pattern(node, fr, interp) -> str:
    """'res_*' style pattern for partially known table names ("res_%s" % x, f"res_{x}")."""
    if isinstance(node, ast.BinOp) and isinstance(node.op, ast.Mod) and isinstance(node.left, ast.Constant) and isinstance(node.left.value, str):
        s = node.left.value
        if "%s" in s:
            return s.replace("%s", "*")
    if isinstance(node, ast.BinOp) and isinstance(node.op, ast.Add) and isinstance(node.left, ast.Constant) and isinstance(node.left.value, str):
        return node.left.value + "*"
    if isinstance(node, ast.JoinedStr):
        out = ""
        for p in node.values:
            if isinstance(p, ast.Constant):
                out += str(p.value)
            else:
                out += "*"
        return out
    if isinstance(node, ast.Call) and isinstance(node.func, ast.Attribute) and node.func.attr == "format" and isinstance(node.func.value, ast.Constant):
        import re
        return re.sub(r"\{[^}]*\}", "*", str(node.func.value.value))
    return "?"


# ------------------------------------------------------------------------------------ summaries
def _summ_sum_by_group(interp, fi, args, kwargs, fr, node):
    # _sum_by_group(bus, first, second): grouped sums keep deps/shapes of their inputs
    outs = []
    for a in args:
        outs.append(AV(deps_of(a) | (deps_of(args[0]) if args else E), "val", None, shape_of(a), a.via))
    return AV(E, "tuple", outs)


def _summ_identity_first(interp, fi, args, kwargs, fr, node):
    return args[0] if args else UNKNOWN


def _summ_load_std_type(interp, fi, args, kwargs, fr, node):
    # the dict of a standard type: a tracked mapping whose key reads are recorded
    el = None
    if len(args) > 2 and args[2].is_const:
        el = args[2].data
    elif "element" in kwargs and kwargs["element"].is_const:
        el = kwargs["element"].data
    return AV(E, "tmap", f"std:{el}" if el else "std")


def _summ_get_values(interp, fi, args, kwargs, fr, node):
    # get_values(source, selection, lookup): source[lookup[selection]]
    src = args[0] if args else kwargs.get("source", UNKNOWN)
    d = set()
    for a in list(args) + list(kwargs.values()):
        d |= deps_of(a)
    return AV(frozenset(d), "val", None, shape_of(src), src.via)


DEFAULT_SUMMARIES: Dict[str, Callable] = {
    "_sum_by_group": _summ_sum_by_group,
    "_sum_by_group_nvals": _summ_sum_by_group,
    "get_values": _summ_get_values,
    "load_std_type": _summ_load_std_type,
}
