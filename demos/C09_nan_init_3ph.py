import sys, warnings; warnings.filterwarnings("ignore")
import numpy as np
import pandapower as pp, copy
from pandapower.pf.runpp_3ph import runpp_3ph
def mk():
    net = pp.create_empty_network(sn_mva=100)
    b0 = pp.create_bus(net, 110); b1 = pp.create_bus(net, 110); b2 = pp.create_bus(net, 110)
    pp.create_ext_grid(net, b0, vm_pu=1.0, s_sc_max_mva=5000, rx_max=0.1, r0x0_max=0.1, x0x_max=1.0)
    pp.create_std_type(net, {"r0_ohm_per_km": 0.0848, "x0_ohm_per_km": 0.4649556, "c0_nf_per_km": 230.6, "max_i_ka": 0.963,
                             "r_ohm_per_km": 0.0212, "x_ohm_per_km": 0.1162389, "c_nf_per_km": 230}, "example_type")
    l0 = pp.create_line(net, b0, b1, 50, "example_type")
    l1 = pp.create_line(net, b1, b2, 20, "example_type")
    pp.create_asymmetric_load(net, b1, p_a_mw=20, q_a_mvar=5, p_b_mw=10, q_b_mvar=2, p_c_mw=15, q_c_mvar=3)
    pp.create_asymmetric_load(net, b2, p_a_mw=5, q_a_mvar=1, p_b_mw=4, q_b_mvar=1, p_c_mw=6, q_c_mvar=1)
    return net, l1
net, l1 = mk()
net.line.loc[l1, "in_service"] = False
runpp_3ph(net)
print("3ph converged", net.converged, "nan", int(net.res_bus_3ph.vm_a_pu.isna().sum()))
net.line.loc[l1, "in_service"] = True
fresh = pp.from_json_string(pp.to_json(net)); runpp_3ph(fresh); print("fresh", fresh.converged)
try:
    runpp_3ph(net, init="results"); print("history", net.converged, int(net.res_bus_3ph.vm_a_pu.isna().sum()), float(abs(net.res_bus_3ph.vm_a_pu-fresh.res_bus_3ph.vm_a_pu).max()))
except Exception as e:
    print("history ERR", type(e).__name__, str(e)[:100])
