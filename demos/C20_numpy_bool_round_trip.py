"""C20: a numpy boolean scalar / array stored in the net (or in a controller attribute) must survive to_json / from_json.

json_npbool writes the strings "true" / "false"; the decoder FromSerializableRegistry.bool_handling returned
bool(self.obj), and bool("false") is True.  Exit 1 when a False comes back as True.
"""
import sys
import numpy as np
import pandapower as pp
from pandapower.control.basic_controller import Controller

net = pp.create_empty_network()
net["flag"] = np.bool_(False)
net["mask"] = np.array([True, False, False])
c = Controller(net)
c.tripped = np.array([False, True])
n2 = pp.from_json_string(pp.to_json(net))
bad = []
if bool(n2["flag"]) is not False:
    bad.append(f"net.flag: False -> {n2['flag']!r}")
if list(map(bool, n2["mask"])) != [True, False, False]:
    bad.append(f"net.mask: [True, False, False] -> {list(n2['mask'])}")
got = list(map(bool, n2.controller.object.iat[0].tripped))
if got != [False, True]:
    bad.append(f"controller.tripped: [False, True] -> {got}")
if bad:
    print("C20 VIOLATED: numpy booleans change in the JSON round trip:", "; ".join(bad))
    sys.exit(1)
print("OK: numpy booleans survive the JSON round trip")
