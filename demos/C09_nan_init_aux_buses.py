import sys, warnings; warnings.filterwarnings("ignore")
import numpy as np
import pandapower as pp, copy
def mk():
    net = pp.create_empty_network()
    b0 = pp.create_bus(net, 110); b1 = pp.create_bus(net, 110); b2 = pp.create_bus(net, 20); b3 = pp.create_bus(net, 10); b4 = pp.create_bus(net, 20)
    pp.create_ext_grid(net, b0)
    l0 = pp.create_line(net, b0, b1, 10, "149-AL1/24-ST1A 110.0")
    pp.create_transformer3w(net, b1, b2, b3, "63/25/38 MVA 110/20/10 kV")
    l1 = pp.create_line(net, b2, b4, 2, "NA2XS2Y 1x240 RM/25 12/20 kV")
    l2 = pp.create_line(net, b2, b4, 2, "NA2XS2Y 1x240 RM/25 12/20 kV")
    pp.create_switch(net, b4, l2, et="l", closed=False)
    pp.create_load(net, b4, 5, 1); pp.create_load(net, b3, 3, 1)
    return net, l0
net, l0 = mk()
net.line.loc[l0, "in_service"] = False
pp.runpp(net)
print("nan buses", int(net.res_bus.vm_pu.isna().sum()), "t3w", net.res_trafo3w.vm_internal_pu.values, "line vm_from", net.res_line.vm_from_pu.values)
net.line.loc[l0, "in_service"] = True
fresh = pp.from_json_string(pp.to_json(net)); pp.runpp(fresh); print("fresh converged", fresh.converged)
try:
    pp.runpp(net, init="results"); print("history converged", net.converged, "max dv", float(abs(net.res_bus.vm_pu-fresh.res_bus.vm_pu).max()))
except Exception as e:
    print("history ERR", type(e).__name__, str(e)[:80])
