"""C29: printing a fuse (Fuse.__str__) sets its characteristic_index to 1, so afterwards the melt time is read from the curve of
another device (or a KeyError is raised).  Exit 1 when str() changes the device."""
import sys
import warnings

warnings.filterwarnings("ignore")
import pandapower as pp
import pandapower.shortcircuit as sc
from pandapower.protection.protection_devices.fuse import Fuse

net = pp.create_empty_network()
b = pp.create_buses(net, 3, 0.4)
pp.create_ext_grid(net, b[0], s_sc_max_mva=0.6, rx_max=0.1, s_sc_min_mva=0.5, rx_min=0.1)
for i in range(2):
    pp.create_line_from_parameters(net, b[i], b[i + 1], 0.1, r_ohm_per_km=0.2, x_ohm_per_km=0.08, c_nf_per_km=0, max_i_ka=0.3)
s0 = pp.create_switch(net, b[0], 0, et="l")
s1 = pp.create_switch(net, b[1], 1, et="l")
f_small = Fuse(net, s0, fuse_type="Siemens NH-1-100")
f_big = Fuse(net, s1, fuse_type="Siemens NH-2-630")
sc.calc_sc(net, bus=b[2], branch_results=True)
before = (f_small.characteristic_index, f_small.protection_function(net, "sc")["trip_melt_time_s"])
text = str(f_small)
after = (f_small.characteristic_index, f_small.protection_function(net, "sc")["trip_melt_time_s"])
print("fuse 100 A: (characteristic index, melt time) before str():", before, " after str():", after,
      " | the 630 A fuse uses index", f_big.characteristic_index)
sys.exit(0 if before == after else 1)
