import copy, numpy as np, pandapower as pp
import warnings; warnings.filterwarnings("ignore")
from pandapower.test.loadflow.test_facts import *  # noqa
import pandapower.shortcircuit as sc
def mk():
    net = pp.create_empty_network()
    pp.create_buses(net, 3, 110)
    pp.create_ext_grid(net, 0, s_sc_max_mva=1000, rx_max=0.1, s_sc_min_mva=800, rx_min=0.1)
    pp.create_line_from_parameters(net, 0, 1, 30, 0.0487, 0.13823, 160, 0.664, endtemp_degree=80)
    pp.create_line_from_parameters(net, 1, 2, 30, 0.0487, 0.13823, 160, 0.664, endtemp_degree=80)
    pp.create_load(net, 2, 10, 3)
    pp.create_bus_dc(net, 110, 'A')
    pp.create_bus_dc(net, 110, 'B')
    pp.create_line_dc(net, 0, 1, 100, std_type="2400-CU")
    pp.create_vsc(net, 1, 0, 0.1, 5, 0.15, control_mode_ac="vm_pu", control_value_ac=1., control_mode_dc="vm_pu", control_value_dc=1.02)
    pp.create_vsc(net, 2, 1, 0.1, 5, 0.15, control_mode_ac="vm_pu", control_value_ac=1., control_mode_dc="p_mw", control_value_dc=1)
    return net
net = mk()
pp.runpp(net)
print("converged", net.converged, "aux", net._pd2ppc_lookups["aux"])
# history: add a third vsc, out of service
pp.create_bus_dc(net, 110, 'C')
pp.create_vsc(net, 2, 2, 0.1, 5, 0.15, control_mode_ac="vm_pu", control_value_ac=1., control_mode_dc="p_mw", control_value_dc=0., in_service=False)
fresh = pp.from_json_string(pp.to_json(net))
for name, f in (("calc_sc", lambda n: sc.calc_sc(n, case="max", ip=False)), ("runpp", pp.runpp), ("rundcpp", pp.rundcpp)):
    for lab, n in (("history", copy.deepcopy(net)), ("fresh", copy.deepcopy(fresh))):
        try:
            f(n); print(name, lab, "ok")
        except Exception as e:
            print(name, lab, "ERR", type(e).__name__, str(e)[:100])
