"""C15: run_contingency_parallel must give the same result for any number of worker processes.

With the option raise_errors (documented for run_contingency, read with kwargs.get in both functions) the parallel path
built functools.partial(..., raise_errors=raise_errors, **kwargs) with raise_errors still inside kwargs:
TypeError "got multiple values for keyword argument 'raise_errors'" for n_procs > 1, while n_procs = 1 works.
"""
import sys
import numpy as np
import pandapower as pp
import pandapower.networks as pn
from pandapower.contingency.contingency_parallel import run_contingency_parallel

net = pn.case9()
cases = {"line": {"index": net.line.index.values}}
seq = run_contingency_parallel(net, cases, n_procs=1, raise_errors=False)
try:
    par = run_contingency_parallel(net, cases, n_procs=2, raise_errors=False)
except TypeError as e:
    print(f"C15 VIOLATED: n_procs=1 works, n_procs=2 raises TypeError: {e}")
    sys.exit(1)
for el in seq:
    for k in seq[el]:
        a, b = seq[el][k], par[el][k]
        same = np.array_equal(a, b) if a.dtype == object or a.dtype.kind in "biU" else np.allclose(a, b, equal_nan=True)
        if not same:
            print(f"C15 VIOLATED: {el}.{k} differs between n_procs=1 and n_procs=2")
            sys.exit(1)
print("OK: same results with raise_errors for n_procs = 1 and 2")
