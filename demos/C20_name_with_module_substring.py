"""C20: arbitrary strings survive to_json / from_json.

json_pandapowernet treats every string attribute of the net that contains the substring '_module' as nested JSON and
calls json.loads on it: a plain name such as "grid_module_7" raises JSONDecodeError in to_json.  Exit 1 in that case.
"""
import sys
import pandapower as pp

net = pp.create_empty_network(name="grid_module_7")
pp.create_bus(net, 20.)
try:
    n2 = pp.from_json_string(pp.to_json(net))
except Exception as e:
    print(f"C20 VIOLATED: to_json/from_json fails for net.name = 'grid_module_7': {type(e).__name__}: {e}")
    sys.exit(1)
if n2.name != "grid_module_7":
    print(f"C20 VIOLATED: name changed to {n2.name!r}")
    sys.exit(1)
print("OK: a name containing '_module' survives the JSON round trip")
