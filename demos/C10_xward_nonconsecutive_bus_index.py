import warnings; warnings.filterwarnings("ignore")
import numpy as np, pandapower as pp
net = pp.create_empty_network()
b = [pp.create_bus(net, 110., index=i) for i in (10, 25, 31, 47)]
pp.create_ext_grid(net, b[0], slack_weight=1.0)
for i in range(3):
    pp.create_line_from_parameters(net, b[i], b[i+1], 10., r_ohm_per_km=0.06, x_ohm_per_km=0.3, c_nf_per_km=10, max_i_ka=1)
pp.create_load(net, b[2], 60., 10.)
pp.create_xward(net, b[1], ps_mw=5., qs_mvar=1., pz_mw=0., qz_mvar=0., r_ohm=0.1, x_ohm=1., vm_pu=1.0, slack_weight=1.0)
for ls in (True, False):
    try:
        pp.runpp(net, distributed_slack=True, numba=False, lightsim2grid=ls)
        print(ls, "ok", net.res_ext_grid.p_mw.values, net.res_xward.p_mw.values)
    except Exception as e:
        import traceback; print(ls, "raised", type(e).__name__, str(e)[:100]); traceback.print_exc(limit=-2)
