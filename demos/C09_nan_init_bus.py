import sys, warnings; warnings.filterwarnings("ignore")
import pandapower as pp, pandapower.networks as pn
net = pn.case9()
net.line.loc[[7,8] if False else [], "in_service"] = False
# isolate bus 8 (index) by opening its lines
lines = net.line[(net.line.from_bus==8)|(net.line.to_bus==8)].index
net.line.loc[lines,"in_service"]=False
pp.runpp(net)
print("nan buses", net.res_bus.vm_pu.isna().sum())
net.line.loc[lines,"in_service"]=True
try:
    pp.runpp(net, init="results"); print("converged", net.converged, net.res_bus.vm_pu.isna().sum())
except Exception as e:
    print("ERR", type(e).__name__, str(e)[:80])
