"""C20: to_pickle / from_pickle returns the same tables.

transform_net_with_df_and_geo converts every table index with pd.Index(..., dtype=int64) and only catches TypeError; a
custom table with string labels raises ValueError (invalid literal for int()), so the saved file cannot be loaded.  The
JSON / Excel readers catch (TypeError, ValueError) at the same conversion.
"""
import os
import sys
import tempfile
import pandas as pd
import pandapower as pp

net = pp.create_empty_network()
pp.create_bus(net, 20.)
net["zone_info"] = pd.DataFrame({"limit_mw": [1.5, 2.5]}, index=["north", "south"])
f = os.path.join(tempfile.mkdtemp(), "net.p")
pp.to_pickle(net, f)
try:
    n2 = pp.from_pickle(f)
except Exception as e:
    print(f"C20 VIOLATED: from_pickle fails for a custom table with string index: {type(e).__name__}: {e}")
    sys.exit(1)
if list(n2.zone_info.index) != ["north", "south"] or list(n2.zone_info.limit_mw) != [1.5, 2.5]:
    print("C20 VIOLATED: custom table changed:", n2.zone_info)
    sys.exit(1)
print("OK: custom table with string index survives the pickle round trip")
