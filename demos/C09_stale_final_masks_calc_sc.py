import copy, numpy as np, pandapower as pp
import warnings; warnings.filterwarnings("ignore")
import pandapower.shortcircuit as sc
def mk():
    net = pp.create_empty_network()
    pp.create_buses(net, 3, 110)
    pp.create_ext_grid(net, 0, s_sc_max_mva=1000, rx_max=0.1, s_sc_min_mva=800, rx_min=0.1)
    pp.create_line_from_parameters(net, 0, 1, 30, 0.0487, 0.13823, 160, 0.664, endtemp_degree=80)
    pp.create_line_from_parameters(net, 1, 2, 30, 0.0487, 0.13823, 160, 0.664, endtemp_degree=80)
    pp.create_load(net, 2, 10, 3)
    pp.create_gen(net, 2, 10, vn_kv=110, xdss_pu=0.2, rdss_ohm=0.1, cos_phi=0.9, sn_mva=30)
    pp.create_gen(net, 1, 10, vn_kv=110, xdss_pu=0.2, rdss_ohm=0.1, cos_phi=0.9, sn_mva=30, in_service=False)
    return net
net = mk()
sc.calc_sc(net, case="max")   # history: a calculation with gen 1 out of service
print(net.res_bus_sc.ikss_ka.values)
net.gen.loc[1, "in_service"] = True   # edit
fresh = pp.from_json_string(pp.to_json(net))
for lab, n in (("history", net), ("fresh", fresh)):
    try:
        sc.calc_sc(n, case="max", check_connectivity=False); print(lab, n.res_bus_sc.ikss_ka.values)
    except Exception as e:
        print(lab, "ERR", type(e).__name__, str(e)[:100])
