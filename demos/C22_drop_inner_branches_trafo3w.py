"""C22: drop_inner_branches drops the two-winding transformers that happen to have the indices of the inner three-winding
transformers (and keeps the three-winding ones)."""
import sys, warnings
warnings.filterwarnings("ignore")
import pandapower as pp
net = pp.create_empty_network()
b = pp.create_buses(net, 6, 110.)
for i in (3, 4, 5): net.bus.loc[b[i], "vn_kv"] = 20.
pp.create_ext_grid(net, b[0])
t2 = pp.create_transformer_from_parameters(net, b[0], b[3], 40, 110, 20, 0.3, 10, 20, 0.1, index=0)      # outside the bus set
t3 = pp.create_transformer3w_from_parameters(net, b[1], b[4], b[5], 110, 20, 20, 40, 20, 20, 10, 10, 10, .3, .3, .3, 20, .1, index=0)
pp.create_line_from_parameters(net, b[0], b[1], 1., 0.1, 0.3, 10, 1.)
pp.toolbox.drop_inner_branches(net, [b[1], b[4], b[5]])
print("trafo index", net.trafo.index.tolist(), "trafo3w index", net.trafo3w.index.tolist())
ok = net.trafo.index.tolist() == [0] and net.trafo3w.index.tolist() == []
sys.exit(0 if ok else 1)
