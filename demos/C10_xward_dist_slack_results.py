"""C10 (fixed by 563b1061f): _extract_dist_slack_pq_results added the variable power of every xward bus to the whole
res_xward.p_mw column and computed the constant bus demand without scaling and with sgens counted as demand.
Exit 1 when the system active power balance of the results does not close or deviation / weight differs."""
import sys
import warnings

warnings.filterwarnings("ignore")
import numpy as np
import pandapower as pp


def build(kind):
    net = pp.create_empty_network()
    b = pp.create_buses(net, 4, 110.)
    pp.create_ext_grid(net, b[0], slack_weight=1.0)
    for i in range(3):
        pp.create_line_from_parameters(net, b[i], b[i + 1], 10., r_ohm_per_km=0.06, x_ohm_per_km=0.3, c_nf_per_km=10, max_i_ka=1)
    pp.create_load(net, b[2], 60., 10.)
    pp.create_xward(net, b[1], ps_mw=5., qs_mvar=1., pz_mw=0., qz_mvar=0., r_ohm=0.1, x_ohm=1., vm_pu=1.0, slack_weight=1.0)
    if kind == "sgen at the xward bus":
        pp.create_sgen(net, b[1], 7.)
    if kind == "scaled load at the xward bus":
        pp.create_load(net, b[1], 10., scaling=0.5)
    if kind == "second xward elsewhere":
        pp.create_xward(net, b[3], ps_mw=3., qs_mvar=1., pz_mw=0., qz_mvar=0., r_ohm=0.1, x_ohm=1., vm_pu=1.0, slack_weight=2.0)
    if kind == "out-of-service xward elsewhere":
        pp.create_xward(net, b[3], ps_mw=3., qs_mvar=1., pz_mw=0., qz_mvar=0., r_ohm=0.1, x_ohm=1., vm_pu=1.0, slack_weight=2.0,
                        in_service=False)
    return net


bad = 0
for kind in ("plain", "sgen at the xward bus", "scaled load at the xward bus", "second xward elsewhere", "out-of-service xward elsewhere"):
    net = build(kind)
    pp.runpp(net, distributed_slack=True, numba=False)
    residual = net.res_ext_grid.p_mw.sum() + net.res_sgen.p_mw.sum() - net.res_xward.p_mw.sum() - net.res_load.p_mw.sum() \
        - net.res_line.pl_mw.sum()
    act = net.xward.in_service.values
    dev = np.r_[net.res_ext_grid.p_mw.values / net.ext_grid.slack_weight.values,
                -(net.res_xward.p_mw.values - net.xward.ps_mw.values)[act] / net.xward.slack_weight.values[act]]
    ok = abs(residual) < 0.05 and np.allclose(dev, dev[0], rtol=1e-3)
    print(f"{kind}: balance residual {residual:.4f} MW, deviation/weight {dev.round(3)}", "OK" if ok else "VIOLATED")
    bad |= not ok
sys.exit(1 if bad else 0)
