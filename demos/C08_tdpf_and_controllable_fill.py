"""C08 known findings: calculations fill NaN cells of the user's input tables in place.

 * runopp -> _check_necessary_opf_parameters: net.<load|storage|gen|sgen>.controllable NaN -> False/True (fillna stored back)
 * runpp(tdpf=True) -> _check_tdpf_parameters: NaN weather / temperature cells of net.line are replaced by default
   assumptions and missing columns are added to net.line
Exit code 1 when the input tables differ after the calculation (the behaviour of the current tree), 0 otherwise.
"""
import sys
import warnings

import numpy as np

warnings.filterwarnings("ignore")
import pandapower as pp
import pandapower.networks as pn

bad = []
net = pn.case9()
pp.create_load(net, 4, p_mw=10., controllable=True, min_p_mw=0, max_p_mw=10, min_q_mvar=0, max_q_mvar=0)
net.load["controllable"] = net.load["controllable"].astype(object)
net.load.loc[0, "controllable"] = np.nan
before = net.load.controllable.copy()
try:
    pp.runopp(net)
except Exception as e:
    print("runopp raised", type(e).__name__)
if not before.equals(net.load.controllable):
    bad.append(f"runopp: load.controllable {before.tolist()} -> {net.load.controllable.tolist()}")

net = pp.create_empty_network()
b = pp.create_buses(net, 2, 110.)
pp.create_ext_grid(net, b[0])
pp.create_line_from_parameters(net, b[0], b[1], 10., r_ohm_per_km=0.1, x_ohm_per_km=0.3, c_nf_per_km=10, max_i_ka=0.5)
pp.create_load(net, b[1], 20.)
net.line["tdpf"] = True
net.line["alpha"] = np.nan
net.line["r_theta_kelvin_per_mw"] = 20.
before = net.line.copy()
pp.runpp(net, tdpf=True, tdpf_update_r_theta=False)
added = sorted(set(net.line.columns) - set(before.columns))
if added:
    bad.append(f"runpp(tdpf=True): columns added to net.line: {added}")
if not (np.isnan(net.line.alpha.values) == np.isnan(before.alpha.values)).all():
    bad.append(f"runpp(tdpf=True): line.alpha {before.alpha.tolist()} -> {net.line.alpha.tolist()}")
for b_ in bad:
    print("CHANGED:", b_)
sys.exit(1 if bad else 0)
