"""C24: create_wards checks a passed index against net.storage, create_lines_dc_from_parameters against net.line - an index that
already exists in the element's own table is accepted by the batch function (duplicate table index) while the single function
rejects it, and an index that only exists in the other table is rejected.  Exit 1 if batch and single disagree."""
import sys, warnings
warnings.filterwarnings("ignore")
import pandapower as pp
bad = []
def both(single, batch):
    out = []
    for f in (single, batch):
        try:
            f(); out.append("accepted")
        except UserWarning:
            out.append("rejected")
    return out
net = pp.create_empty_network(); b = pp.create_buses(net, 3, 20.)
pp.create_ward(net, b[0], 1., 0., 0., 0., index=5)
r = both(lambda: pp.create_ward(pp.create_empty_network() if False else net, b[1], 1., 0., 0., 0., index=5),
         lambda: pp.create_wards(net, [b[1], b[2]], [1., 1.], [0., 0.], [0., 0.], [0., 0.], index=[5, 6]))
print("ward index 5 exists: single", r[0], "batch", r[1], "| ward index now", net.ward.index.tolist())
if r[0] != r[1]: bad.append("wards")
net = pp.create_empty_network(); bdc = pp.create_buses_dc(net, 3, 320.)
pp.create_line_dc_from_parameters(net, bdc[0], bdc[1], 10., 0.01, 1., index=3)
r = both(lambda: pp.create_line_dc_from_parameters(net, bdc[1], bdc[2], 10., 0.01, 1., index=3),
         lambda: pp.create_lines_dc_from_parameters(net, [bdc[1]], [bdc[2]], [10.], [0.01], [1.], index=[3]))
print("line_dc index 3 exists: single", r[0], "batch", r[1], "| line_dc index now", net.line_dc.index.tolist())
if r[0] != r[1]: bad.append("lines_dc")
sys.exit(1 if bad else 0)
