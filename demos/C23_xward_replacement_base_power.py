import warnings; warnings.filterwarnings("ignore")
import pandapower as pp, pandapower.networks as pn, copy, numpy as np
import pandapower.toolbox as tb
for sn in (1., 100.):
    net = pn.case9(); net.sn_mva = sn
    pp.create_xward(net, 4, 10, 5, 2, 1, 0.5, 5.0, 1.02)
    pp.runpp(net)
    v0 = net.res_bus.vm_pu.values.copy()
    n2 = copy.deepcopy(net)
    tb.replace_xward_by_internal_elements(n2)
    pp.runpp(n2)
    print("sn_mva", sn, "max dv", np.abs(n2.res_bus.vm_pu.values[:9]-v0).max())
