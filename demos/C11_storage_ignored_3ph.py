"""C11: a storage is ignored by the three-phase power flow (not in _load_mapping) but reported as bus demand in res_bus_3ph
(listed in _get_p_q_results_3ph): per-phase nodal balance of the results is violated."""
import sys, warnings
warnings.filterwarnings("ignore")
import numpy as np, pandapower as pp

def build(with_storage):
    net = pp.create_empty_network()
    b = pp.create_buses(net, 2, 20.)
    pp.create_ext_grid(net, b[0], s_sc_max_mva=1000, rx_max=0.1, r0x0_max=0.1, x0x_max=1.0)
    pp.create_line_from_parameters(net, b[0], b[1], 5., r_ohm_per_km=0.2, x_ohm_per_km=0.3, c_nf_per_km=10, max_i_ka=0.5,
                                   r0_ohm_per_km=0.6, x0_ohm_per_km=1.2, c0_nf_per_km=5)
    pp.create_asymmetric_load(net, b[1], p_a_mw=1., p_b_mw=2., p_c_mw=1.5, q_a_mvar=0.2, q_b_mvar=0.1, q_c_mvar=0.3)
    if with_storage:
        pp.create_storage(net, b[1], p_mw=3., max_e_mwh=10., q_mvar=0.3)
    return net

bad = 0
for ws in (False, True):
    net = build(ws)
    pp.runpp_3ph(net)
    line_in = net.res_line_3ph[["p_a_to_mw", "p_b_to_mw", "p_c_to_mw"]].values[0]   # power flowing into the line at the load bus (negative = delivered)
    bus_dem = net.res_bus_3ph.loc[1, ["p_a_mw", "p_b_mw", "p_c_mw"]].values.astype(float)
    resid = bus_dem + line_in
    print("with storage" if ws else "without storage", " bus demand per phase", bus_dem.round(4), " delivered by the line", (-line_in).round(4), " residual", resid.round(4))
    bad |= bool(np.abs(resid).max() > 1e-3)
sys.exit(1 if bad else 0)
