"""C10 (fixed by 5b734c5eb): xwards whose buses are not in ascending table order got each other's slack weights
(_get_xward_pq_buses sorted the buses with np.setdiff1d while the weights stayed in xward row order); two xwards at one
bus raised IndexError.  Exit 1 when deviation / weight differs between the participants."""
import sys
import warnings

warnings.filterwarnings("ignore")
import numpy as np
import pandapower as pp


def run(order):
    net = pp.create_empty_network()
    b = pp.create_buses(net, 4, 110.)
    pp.create_ext_grid(net, b[0], slack_weight=1.0)
    for i in range(3):
        pp.create_line_from_parameters(net, b[i], b[i + 1], 10., r_ohm_per_km=0.06, x_ohm_per_km=0.3, c_nf_per_km=10, max_i_ka=1)
    pp.create_load(net, b[2], 60., 10.)
    specs = [(b[1], 5., 1.0), (b[3], 3., 3.0)]
    if order == "descending":
        specs = specs[::-1]
    if order == "same bus":
        specs = [(b[1], 5., 1.0), (b[1], 3., 3.0)]
    for bus, ps, w in specs:
        pp.create_xward(net, bus, ps_mw=ps, qs_mvar=1., pz_mw=0., qz_mvar=0., r_ohm=0.1, x_ohm=1., vm_pu=1.0, slack_weight=w)
    pp.runpp(net, distributed_slack=True, numba=False)
    dev_eg = net.res_ext_grid.p_mw.values / net.ext_grid.slack_weight.values
    dev_xw = -(net.res_xward.p_mw.values - net.xward.ps_mw.values) / net.xward.slack_weight.values
    return np.r_[dev_eg, dev_xw]


bad = 0
for order in ("ascending", "descending", "same bus"):
    try:
        d = run(order)
    except Exception as e:
        print(order, "raised", type(e).__name__, e)
        bad = 1
        continue
    ok = np.allclose(d, d[0], rtol=1e-3)
    print(order, "deviation / weight (ext_grid, xwards):", d.round(3), "OK" if ok else "DIFFER")
    bad |= not ok
sys.exit(1 if bad else 0)
